// Command vinstr instruments one package directory and writes a `go build -overlay` file.
package main

import (
	"encoding/json"
	"flag"
	"fmt"
	"os"
	"strings"

	"verif/vinstr"
)

func main() {
	dir := flag.String("dir", "", "package directory")
	files := flag.String("files", "", "comma separated base names (empty = all)")
	out := flag.String("out", "", "output directory")
	overlay := flag.String("overlay", "", "overlay json to write (merged if it exists)")
	rename := flag.String("rename-main", "", "rename func main")
	fileops := flag.Bool("fileops", false, "rewrite file operations")
	touch := flag.Bool("touch", false, "insert Touch before package-level variable accesses")
	flag.Parse()
	opt := vinstr.Options{Dir: *dir, OutDir: *out, RenameMain: *rename, FileOps: *fileops, TouchVars: *touch}
	if *files != "" {
		opt.Files = strings.Split(*files, ",")
	}
	res, err := vinstr.Instrument(opt)
	if err != nil {
		fmt.Fprintln(os.Stderr, "vinstr:", err)
		os.Exit(2)
	}
	ov := struct{ Replace map[string]string }{map[string]string{}}
	if b, err := os.ReadFile(*overlay); err == nil {
		_ = json.Unmarshal(b, &ov)
	}
	for k, v := range res.Overlay {
		ov.Replace[k] = v
	}
	b, _ := json.MarshalIndent(ov, "", " ")
	if err := os.WriteFile(*overlay, b, 0o644); err != nil {
		fmt.Fprintln(os.Stderr, "vinstr:", err)
		os.Exit(2)
	}
	rb, _ := json.Marshal(res)
	fmt.Println(string(rb))
}
