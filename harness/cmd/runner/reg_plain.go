package main

import (
	"verif/checks/c07"
)

func init() {
	registry["C07"] = c07.Run
}
