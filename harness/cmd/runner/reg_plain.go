package main

import (
	"verif/checks/c01"
	"verif/checks/c02"
	"verif/checks/c03"
	"verif/checks/c04"
	"verif/checks/c05"
	"verif/checks/c06"
	"verif/checks/c07"
	"verif/checks/c08"
	"verif/checks/c09"
	"verif/checks/c10"
	"verif/checks/c11"
	"verif/checks/c12"
	"verif/checks/c13"
	"verif/checks/c14"
	"verif/checks/c15"
	"verif/checks/c16"
	"verif/checks/c17"
	"verif/checks/c18"
	"verif/checks/c19"
	"verif/checks/c20"
	"verif/common"
)

func init() {
	registry["C18"] = c18.Run
	registry["C18-race"] = func(ctx *common.Ctx) int { return c18.Race(ctx, flagGomaxprocs) }
	registry["C14"] = c14.Run
	registry["C13"] = c13.Run
	registry["C20"] = c20.Run
	registry["C17"] = c17.Run
	registry["C16"] = c16.Run
	registry["C15"] = c15.Run
	registry["C11"] = c11.Run
	registry["C06"] = c06.Run
	registry["C12"] = c12.Run
	registry["C05"] = c05.Run
	registry["C19"] = c19.Run
	registry["C04"] = c04.Run
	registry["C03"] = c03.Run
	registry["C02"] = c02.Run
	registry["C01"] = c01.Run
	registry["C07"] = c07.Run
	registry["C08"] = c08.Run
	registry["C09"] = c09.Run
	registry["C10"] = c10.Run
	registry["C08-race"] = func(ctx *common.Ctx) int { return c08.Race(ctx, flagGomaxprocs) }
}
