package main

import (
	"verif/checks/c07"
	"verif/checks/c08"
	"verif/checks/c09"
	"verif/checks/c10"
	"verif/common"
)

func init() {
	registry["C07"] = c07.Run
	registry["C08"] = c08.Run
	registry["C09"] = c09.Run
	registry["C10"] = c10.Run
	registry["C08-race"] = func(ctx *common.Ctx) int { return c08.Race(ctx, flagGomaxprocs) }
}
