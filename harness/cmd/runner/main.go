// Command runner executes one property check against the repository it was built with.
// It is (re)built by /verif/check from /repo's current working tree on every invocation.
package main

import (
	"encoding/json"
	"flag"
	"fmt"
	"io"
	"log"
	"os"
	"path/filepath"
	"runtime/debug"
	"strconv"
	"strings"
	"time"
	"verif/prelude"

	"verif/common"
	"verif/e1"
)

var registry = map[string]func(*common.Ctx) int{}

// taskHandlers serve the sub-process mode (--task/--result) of the controlled-scheduler engine.
var taskHandlers = map[string]func(e1.Task) (*e1.Result, map[uint64]struct{}){}

// flags available to sub-commands
var (
	flagGomaxprocs int
)

func main() {
	debug.SetGCPercent(400) // the checks allocate many short-lived big numbers and bit slices on 16 cores
	if len(os.Args) < 2 || !strings.HasSuffix(os.Args[1], "-race") {
		// a caller may write to what the library returned to it: nothing later may depend on that. (Not in the -race
		// sub-commands: their first conversions must happen cold and concurrently, or a lazily built table is built
		// here, single-threaded, and its unsynchronised publication is never seen.)
		prelude.Scribble()
	}
	if len(os.Args) < 2 {
		fmt.Fprintln(os.Stderr, "usage: runner <ID> [--tier quick|thorough] [--work dir]")
		os.Exit(2)
	}
	id := os.Args[1]
	fs := flag.NewFlagSet("runner", flag.ExitOnError)
	tier := fs.String("tier", "", "quick|thorough")
	work := fs.String("work", "", "scratch directory")
	budget := fs.Duration("budget", 0, "soft deadline (exit 0, exhaustive:false when reached)")
	taskFile := fs.String("task", "", "sub-process mode: task json")
	resultFile := fs.String("result", "", "sub-process mode: result json")
	fs.IntVar(&flagGomaxprocs, "gomaxprocs", 0, "race pass: GOMAXPROCS")
	replay := fs.String("replay", "", "a replays/<ID>-<n>.json file written by an earlier run: re-run the check at its tier and seed and report whether that violation shows again")
	_ = fs.Parse(os.Args[2:])
	replayKey := ""
	if *replay != "" {
		var rec struct {
			Property, Key, Tier string
			Seed                int64
		}
		b, err := os.ReadFile(*replay)
		if err != nil || json.Unmarshal(b, &rec) != nil || rec.Key == "" {
			fmt.Fprintf(os.Stderr, "cannot read the replay file %s\n", *replay)
			os.Exit(2)
		}
		if rec.Property != id {
			fmt.Fprintf(os.Stderr, "the replay file belongs to %s, not to %s\n", rec.Property, id)
			os.Exit(2)
		}
		replayKey, *tier = rec.Key, rec.Tier
		_ = os.Setenv("VERIF_SEED", strconv.FormatInt(rec.Seed, 10))
	}
	if *taskFile != "" {
		os.Exit(subprocess(id, *taskFile, *resultFile))
	}
	if *tier == "" {
		*tier = os.Getenv("VERIF_TIER")
	}
	if *tier == "" {
		*tier = "quick"
	}
	seed := int64(1)
	if s := os.Getenv("VERIF_SEED"); s != "" {
		if v, err := strconv.ParseInt(s, 10, 64); err == nil {
			seed = v
		}
	}
	// the library prints to stdout (fmt.Println(counters)); keep our own channel clean
	out := os.Stdout
	if dn, err := os.OpenFile(os.DevNull, os.O_WRONLY, 0); err == nil {
		os.Stdout = dn
	}
	ctx := &common.Ctx{ID: id, Tier: *tier, Seed: seed, Work: *work, Start: time.Now(), Out: out, ReplayKey: replayKey}
	if *budget == 0 {
		if *tier == "quick" {
			*budget = 150 * time.Second
		} else {
			*budget = 40 * time.Minute
		}
	}
	ctx.Deadline = ctx.Start.Add(*budget)
	if ctx.Work == "" {
		d, err := os.MkdirTemp("", "verif-work-")
		if err != nil {
			fmt.Fprintln(out, "cannot create scratch directory:", err)
			os.Exit(2)
		}
		ctx.Work = d
		defer os.RemoveAll(d)
	}
	if olds, _ := filepath.Glob(filepath.Join(common.Root, "replays", id+"-*.json")); *tier != "" && replayKey == "" {
		for _, o := range olds {
			_ = os.Remove(o)
		}
	}
	f, ok := registry[id]
	if !ok {
		fmt.Fprintf(out, "unknown or sub-process-only check %q\n", id)
		os.Exit(2)
	}
	code := 2
	func() {
		defer func() {
			if r := recover(); r != nil {
				fmt.Fprintf(out, "TOOL-ERROR: check %s crashed: %v\n%s\n", id, r, debug.Stack())
				code = 2
			}
		}()
		code = f(ctx)
	}()
	if ctx.Work != *work {
		os.RemoveAll(ctx.Work)
	}
	os.Exit(code)
}

func subprocess(id, taskFile, resultFile string) int {
	if dn, err := os.OpenFile(os.DevNull, os.O_WRONLY, 0); err == nil {
		os.Stdout = dn
	}
	log.SetOutput(io.Discard)
	h, ok := taskHandlers[id]
	if !ok {
		fmt.Fprintf(os.Stderr, "no task handler for %s in this build\n", id)
		return 2
	}
	b, err := os.ReadFile(taskFile)
	if err != nil {
		fmt.Fprintln(os.Stderr, err)
		return 2
	}
	var t e1.Task
	if err := json.Unmarshal(b, &t); err != nil {
		fmt.Fprintln(os.Stderr, err)
		return 2
	}
	res, states := h(t)
	if err := e1.WriteResult(resultFile, res, states); err != nil {
		fmt.Fprintln(os.Stderr, err)
		return 2
	}
	return 0
}
