// Command runner executes one property check against the repository it was built with.
// It is (re)built by /verif/check from /repo's current working tree on every invocation.
package main

import (
	"flag"
	"fmt"
	"os"
	"path/filepath"
	"strconv"
	"time"

	"verif/common"
)

var registry = map[string]func(*common.Ctx) int{}

func main() {
	if len(os.Args) < 2 {
		fmt.Fprintln(os.Stderr, "usage: runner <ID> [--tier quick|thorough] [--work dir]")
		os.Exit(2)
	}
	id := os.Args[1]
	fs := flag.NewFlagSet("runner", flag.ExitOnError)
	tier := fs.String("tier", "", "quick|thorough")
	work := fs.String("work", "", "scratch directory")
	budget := fs.Duration("budget", 0, "soft deadline (exit 0, exhaustive:false when reached)")
	_ = fs.Parse(os.Args[2:])
	if *tier == "" {
		*tier = os.Getenv("VERIF_TIER")
	}
	if *tier == "" {
		*tier = "quick"
	}
	seed := int64(1)
	if s := os.Getenv("VERIF_SEED"); s != "" {
		if v, err := strconv.ParseInt(s, 10, 64); err == nil {
			seed = v
		}
	}
	// the library prints to stdout (fmt.Println(counters)); keep our own channel clean
	out := os.Stdout
	if dn, err := os.OpenFile(os.DevNull, os.O_WRONLY, 0); err == nil {
		os.Stdout = dn
	}
	ctx := &common.Ctx{ID: id, Tier: *tier, Seed: seed, Work: *work, Start: time.Now(), Out: out}
	if *budget == 0 {
		if *tier == "quick" {
			*budget = 150 * time.Second
		} else {
			*budget = 40 * time.Minute
		}
	}
	ctx.Deadline = ctx.Start.Add(*budget)
	if ctx.Work == "" {
		d, err := os.MkdirTemp("", "verif-work-")
		if err != nil {
			fmt.Fprintln(out, "cannot create scratch directory:", err)
			os.Exit(2)
		}
		ctx.Work = d
		defer os.RemoveAll(d)
	}
	if olds, _ := filepath.Glob(filepath.Join(common.Root, "replays", id+"-*.json")); *tier != "" {
		for _, o := range olds {
			_ = os.Remove(o)
		}
	}
	f, ok := registry[id]
	if !ok {
		fmt.Fprintf(out, "unknown or sub-process-only check %q\n", id)
		os.Exit(2)
	}
	code := f(ctx)
	if ctx.Work != *work {
		os.RemoveAll(ctx.Work)
	}
	os.Exit(code)
}
