//go:build verif_dump

package main

import (
	r "github.com/Trisia/randomness"
	"github.com/Trisia/randomness/detect"
	"github.com/Trisia/randomness/fft"

	"verif/checks/c18"
)

func init() {
	c18.DumpState = func() string { return r.VerifDumpState() + "|" + fft.VerifDumpState() + "|" + detect.VerifDumpState() }
}
