//go:build verif_instr

package main

import (
	"verif/checks/c18"
	"verif/checks/fast"
)

func init() {
	taskHandlers["C08"] = fast.Handle
	taskHandlers["C09"] = fast.Handle
	taskHandlers["C10"] = fast.Handle
	taskHandlers["C14"] = fast.Handle
	taskHandlers["C18"] = c18.Handle
}
