//go:build verif_instr

package main

import (
	"verif/checks/fast"
)

func init() {
	taskHandlers["C08"] = fast.Handle
	taskHandlers["C09"] = fast.Handle
	taskHandlers["C10"] = fast.Handle
}
