// Package model is the independent decision model of GM/T 0005-2021 section 6 used as oracle for
// the detection workflows: pass-count threshold by an exact integer predicate, sample uniformity
// from exact bin counts through the reference Q(9/2, .).
package model

import (
	"math/big"

	"verif/refmodel"
)

// Threshold is the smallest integer t with t >= s(1 - a - 3 sqrt(a(1-a)/s)), a = 1/100,
// i.e. 100 t >= 99 s - 3 sqrt(99 s), decided in integers.
func Threshold(s int) int {
	ok := func(t int) bool {
		d := new(big.Int).Sub(big.NewInt(int64(99*s)), big.NewInt(int64(100*t))) // 99s - 100t <= 3 sqrt(99 s) ?
		if d.Sign() <= 0 {
			return true
		}
		d.Mul(d, d)
		return d.Cmp(big.NewInt(int64(9*99*s))) <= 0
	}
	// the bound is within [0.99s - 3*sqrt(0.0099 s) - 1, s]; scan upward from a safe start
	t := 99*s/100 - 4 - isqrt(s)/3
	if t < 0 {
		t = 0
	}
	for ; t > 0 && ok(t); t-- {
	}
	for !ok(t) {
		t++
	}
	return t
}

func isqrt(n int) int {
	r := 0
	for (r+1)*(r+1) <= n {
		r++
	}
	return r
}

var edges = [...]float64{0.1, 0.2, 0.3, 0.4, 0.5, 0.6, 0.7, 0.8, 0.9}

// Bin is the index of the interval [0,0.1), [0.1,0.2), ..., [0.9,1] containing q.
func Bin(q float64) int {
	b := 0
	for _, e := range edges {
		if q >= e {
			b++
		}
	}
	return b
}

// Uniformity is P_T = Q(9/2, V/2) with V the chi-square of the ten bin counts against s/10.
func Uniformity(qs []float64) float64 {
	var f [10]int
	for _, q := range qs {
		f[Bin(q)]++
	}
	return UniformityCounts(f[:])
}

func UniformityCounts(f []int) float64 {
	s := 0
	sq := 0
	for _, c := range f {
		s += c
		sq += c * c
	}
	// V = sum (F - s/10)^2 / (s/10) = 10 sum F^2 / s - s   (exact rational, one rounding)
	v := new(big.Rat).SetFrac(big.NewInt(int64(10*sq)), big.NewInt(int64(s)))
	v.Sub(v, new(big.Rat).SetInt64(int64(s)))
	half, _ := new(big.Rat).Quo(v, big.NewRat(2, 1)).Float64()
	return refmodel.QBig(9, half)
}

// Decision of the section-6 rule for one workflow.
type Decision struct {
	Verdict   bool
	Violators map[int]string // item -> which criterion it violates
	EitherWay map[int]bool   // items whose uniformity lies within 1e-12 of 0.0001 (both answers admissible)
}

// Decide applies the rule to pass flags and Q values [sample][item] for the first `items` items.
func Decide(pass [][]bool, q [][]float64, s, items int) Decision {
	d := Decision{Verdict: true, Violators: map[int]string{}, EitherWay: map[int]bool{}}
	t := Threshold(s)
	for i := 0; i < items; i++ {
		cnt := 0
		qs := make([]float64, s)
		for k := 0; k < s; k++ {
			if pass[k][i] {
				cnt++
			}
			qs[k] = q[k][i]
		}
		if cnt < t {
			d.Verdict = false
			d.Violators[i] = "pass count"
			continue
		}
		u := Uniformity(qs)
		if u > 0.0001-1e-12 && u < 0.0001+1e-12 {
			d.EitherWay[i] = true
			continue
		}
		if u < 0.0001 {
			d.Verdict = false
			d.Violators[i] = "uniformity"
		}
	}
	return d
}
