package model

import "testing"

func TestThreshold(t *testing.T) {
	for s, want := range map[int]int{50: 48, 20: 19, 1000: 981, 1: 1, 110000: 108801} {
		if got := Threshold(s); got != want {
			t.Errorf("Threshold(%d)=%d want %d", s, got, want)
		}
	}
	t.Log(UniformityCounts([]int{2, 2, 2, 2, 2, 2, 2, 2, 2, 2}), UniformityCounts([]int{20, 0, 0, 0, 0, 0, 0, 0, 0, 0}))
}
