// Package c16: results are well-formed probabilities with consistent P, Q and Pass (E2).
package c16

import (
	"fmt"
	"math"
	"sync/atomic"

	r "github.com/Trisia/randomness"

	"verif/calls"
	"verif/common"
	"verif/enum"
)

type member struct {
	name string
	bits []bool
}

// family builds the extreme family at length n.
func family(n int, seed uint64, small bool) []member {
	var out []member
	add := func(name string, b []bool) { out = append(out, member{name, b}) }
	add("constant 0", make([]bool, n))
	add("constant 1", enum.Repeat([]bool{true}, n))
	maxBase := 8
	if !small {
		maxBase = 3
	}
	for _, p := range enum.BasePatterns(maxBase) {
		if len(p) == 1 {
			continue
		}
		add("period pattern "+common.BitString(p), enum.Repeat(p, n))
	}
	as := map[int]bool{1: true, 2: true, n / 2: true, n - 2: true, n - 1: true}
	for a := 499; a < n; a += 500 {
		if small || a < 3000 || a > n-3000 || (a/500)%97 == 0 {
			as[a], as[a+1], as[a+2] = true, true, true
		}
	}
	for a := range as {
		if a <= 0 || a >= n {
			continue
		}
		b := make([]bool, n)
		c := make([]bool, n)
		for i := 0; i < n; i++ {
			b[i] = i >= a
			c[i] = i < a
		}
		add(fmt.Sprintf("single transition 0^%d 1^%d", a, n-a), b)
		add(fmt.Sprintf("single transition 1^%d 0^%d", a, n-a), c)
	}
	for _, pos := range []int{0, 1, n / 2, n - 2, n - 1, 499, 500, 999} {
		if pos >= n {
			continue
		}
		b := make([]bool, n)
		b[pos] = true
		add(fmt.Sprintf("a lone one at %d", pos), b)
		c := enum.Repeat([]bool{true}, n)
		c[pos] = false
		add(fmt.Sprintf("a lone zero at %d", pos), c)
	}
	h := make([]bool, n)
	for i := n / 2; i < n; i++ {
		h[i] = true
	}
	add("balanced halves", h)
	q := make([]bool, n)
	for i := range q {
		q[i] = (i/(n/4+1))%2 == 1
	}
	add("balanced quarters", q)
	for s := uint64(0); s < 2; s++ {
		add(fmt.Sprintf("filler seed %d", seed+s), enum.Filler(n, seed+s))
	}
	biased := enum.Filler(n, seed+9)
	for i := range biased {
		if i%4 != 0 {
			biased[i] = true
		}
	}
	add("heavily biased (7/8 ones)", biased)
	return out
}

var twoSided = map[int]bool{0: true, 4: true, 7: true, 8: true, 13: true, 14: true}

func Run(ctx *common.Ctx) int {
	quick := ctx.Quick()
	var evals int64
	distinct := enum.NewDistinctSet()
	exhaustive := true
	var samples []interface{}
	all := calls.All()
	bad := func(v float64) bool { return math.IsNaN(v) || math.IsInf(v, 0) || v < -1e-9 || v > 1+1e-9 }
	checkVals := func(name string, vals []float64, chi bool, desc func() interface{}) {
		half := len(vals) / 2
		for k := 0; k < half; k++ {
			p, q := vals[k], vals[half+k]
			if bad(p) || bad(q) {
				ctx.Report(name+"/range", fmt.Sprintf("%s returned P=%v Q=%v: not a finite probability in [0,1]", name, p, q), desc())
				return
			}
			distinct.Add(math.Float64bits(p) ^ uint64(len(name))<<52)
			if chi {
				if math.Float64bits(p) != math.Float64bits(q) {
					ctx.Report(name+"/q-equals-p", fmt.Sprintf("%s (chi-square test) returned Q=%v != P=%v", name, q, p), desc())
				}
			} else if d := math.Abs(p - 2*math.Min(q, 1-q)); d > 1e-12 {
				ctx.Report(name+"/two-sided", fmt.Sprintf("%s (two-sided test) returned P=%v, Q=%v: P != 2 min(Q,1-Q) (difference %.3g)", name, p, q, d), desc())
			}
		}
	}
	var lens []int
	for n := 100; n <= 136; n++ {
		lens = append(lens, n)
	}
	lens = append(lens, 1000, 1024, 8967, 8968, 8969, 8970, 8971, 8972, 8973, 8974, 20000, 1000000)
	if !quick {
		lens = append(lens, 10000000)
	}
	for _, n := range lens {
		if ctx.Expired() {
			exhaustive = false
			break
		}
		fam := family(n, uint64(ctx.Seed), n <= 20000)
		if n >= 1000000 {
			// 10^6 and above: a fixed subset (each member costs seconds)
			keep := fam[:0]
			for i, m := range fam {
				if i%5 == 0 || i < 4 || i >= len(fam)-4 {
					keep = append(keep, m)
				}
			}
			fam = keep
			if n > 1000000 {
				fam = fam[:8]
			}
		}
		common.ParFor(len(fam), func(mi int) {
			m := fam[mi]
			desc := func() interface{} { return map[string]interface{}{"n": n, "sequence": m.name} }
			// parameterised entry points admissible at n
			for _, c := range all {
				if n < c.Min || n < 100 {
					continue
				}
				if n >= 1000000 && (c.Name == "LinearComplexityProto(m=1000)" || c.Name == "LinearComplexityProto(m=5000)") && mi%3 != 0 {
					continue
				}
				if n > 1000000 && c.Name[:6] == "Linear" {
					continue
				}
				var vals []float64
				atomic.AddInt64(&evals, 1)
				if pv := common.Catch(func() { vals = c.Impl(m.bits) }); pv != nil {
					ctx.Report(c.Name+"/panic", fmt.Sprintf("%s panicked: %v", c.Name, pv), desc())
					continue
				}
				checkVals(c.Name, vals, c.Chi, desc)
			}
			var dp, dq float64
			atomic.AddInt64(&evals, 1)
			if pv := common.Catch(func() { dp, dq = r.DiscreteFourierTransformTest(m.bits) }); pv != nil {
				ctx.Report("DiscreteFourierTransformTest/panic", fmt.Sprintf("DiscreteFourierTransformTest panicked: %v", pv), desc())
			} else {
				checkVals("DiscreteFourierTransformTest", []float64{dp, dq}, false, desc)
			}
			// registry runners on byte-aligned members
			if n%8 == 0 && n <= 1000000 {
				data := make([]byte, n/8)
				for i, b := range m.bits {
					if b {
						data[i/8] |= 0x80 >> uint(i%8)
					}
				}
				for i, it := range r.TestMethodArr {
					min := 128
					if i == 13 {
						min = 8967
					}
					if i == 9 {
						min = 1024
					}
					if i == 12 {
						min = 500
					}
					if n < min {
						continue
					}
					var res *r.TestResult
					atomic.AddInt64(&evals, 1)
					if pv := common.Catch(func() { res = it.Runner(data) }); pv != nil {
						ctx.Report(fmt.Sprintf("runner%d/panic", i), fmt.Sprintf("registry runner %d (%s) panicked: %v", i, it.Name, pv), desc())
						continue
					}
					if res == nil {
						ctx.Report(fmt.Sprintf("runner%d/nil", i), fmt.Sprintf("registry runner %d returned nil", i), desc())
						continue
					}
					name := fmt.Sprintf("runner %d", i)
					minP := res.P
					if i == 3 {
						checkVals(name, []float64{res.P, res.P2, res.Q, res.Q2}, true, desc)
						minP = math.Min(res.P, res.P2)
					} else {
						checkVals(name, []float64{res.P, res.Q}, !twoSided[i], desc)
					}
					if res.Pass != (minP >= 0.01) {
						ctx.Report(fmt.Sprintf("runner%d/pass", i), fmt.Sprintf("registry runner %d: Pass=%v although its P-value is %v", i, res.Pass, minP), desc())
					}
				}
			}
		})
		if len(samples) < 6 && (n == 100 || n == 128 || n == 8967 || n == 20000 || n == 1000000) {
			samples = append(samples, map[string]interface{}{"n": n, "members": len(fam), "example": fam[len(fam)/2].name})
		}
	}
	// mixed family: fillers with a planted sparse bias, so that P-values land on both sides of 0.01
	// (in particular overlapping P1 >= 0.01 > P2 and the reverse), all fifteen runners
	var p1only, p2only, nearAlpha int64
	type mixed struct{ n, k, L int }
	var mx []mixed
	for _, n := range []int{1024, 2048, 20000} {
		for k := 2; k <= 64; k++ {
			for _, L := range []int{n / 8, n / 4, n / 2, n} {
				mx = append(mx, mixed{n, k, L})
			}
		}
	}
	common.ParFor(len(mx), func(i int) {
		m := mx[i]
		bits := enum.Filler(m.n, uint64(ctx.Seed)+uint64(m.k))
		for j := 0; j < m.L; j += m.k {
			bits[j] = true
		}
		data := make([]byte, m.n/8)
		for j, b := range bits {
			if b {
				data[j/8] |= 0x80 >> uint(j%8)
			}
		}
		desc := func() interface{} {
			return map[string]interface{}{"n": m.n, "sequence": fmt.Sprintf("filler seed %d with every %d-th bit of the first %d set", ctx.Seed+int64(m.k), m.k, m.L)}
		}
		for it, item := range r.TestMethodArr {
			if it == 13 && m.n < 8967 {
				continue
			}
			var res *r.TestResult
			atomic.AddInt64(&evals, 1)
			if pv := common.Catch(func() { res = item.Runner(data) }); pv != nil || res == nil {
				ctx.Report(fmt.Sprintf("runner%d/panic", it), fmt.Sprintf("registry runner %d panicked or returned nil: %v", it, pv), desc())
				continue
			}
			minP := res.P
			if it == 3 {
				minP = math.Min(res.P, res.P2)
				checkVals(fmt.Sprintf("runner %d", it), []float64{res.P, res.P2, res.Q, res.Q2}, true, desc)
				if res.P >= 0.01 && res.P2 < 0.01 {
					atomic.AddInt64(&p1only, 1)
				}
				if res.P2 >= 0.01 && res.P < 0.01 {
					atomic.AddInt64(&p2only, 1)
				}
			} else {
				checkVals(fmt.Sprintf("runner %d", it), []float64{res.P, res.Q}, !twoSided[it], desc)
			}
			if minP > 0.001 && minP < 0.1 {
				atomic.AddInt64(&nearAlpha, 1)
			}
			if res.Pass != (minP >= 0.01) {
				ctx.Report(fmt.Sprintf("runner%d/pass", it), fmt.Sprintf("registry runner %d: Pass=%v although its P-value is %v (P2=%v)", it, res.Pass, res.P, res.P2), desc())
			}
		}
	})
	samples = append(samples, map[string]interface{}{"family": "mixed", "members": len(mx), "example": "n=2048 filler with every 7th bit of the first 512 set", "overlapping_P1>=0.01>P2": p1only, "overlapping_P2>=0.01>P1": p2only, "results_with_P_in_(0.001,0.1)": nearAlpha})
	cov := common.Coverage{
		"evaluations":         int(evals),
		"distinct_nontrivial": distinct.Count(),
		"rule": "the extreme family (constants, every period-p pattern p<=8, single transitions at a in {1,2,n/2,n-2,n-1} and a = -1,0,1 mod 500, a lone one/zero at 8 position classes, balanced halves/quarters, fillers, heavy bias), completely, at every n in 100..136, 1000, 1024, 8967..8974, 20000 and a fixed subset at 10^6 (10^7) x every parameterised entry point admissible at n and the fifteen runners; " +
			"checks: finite, within [-1e-9,1+1e-9]; two-sided tests |P-2min(Q,1-Q)|<=1e-12; chi-square tests Q==P; Pass == (P>=0.01), min(P1,P2) for overlapping; distinct = distinct (call, P) pairs",
		"samples":    samples,
		"lengths":    lens,
		"exhaustive": exhaustive,
	}
	return ctx.Finish("exploration", cov, []string{"the family is a stated finite set of extreme sequences, not all sequences"})
}
