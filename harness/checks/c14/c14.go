// Package c14: stuck-at and short-cycle sources are always rejected (E3 with the real runners).
package c14

import (
	"crypto/sha1"
	"fmt"
	"io"
	"os"
	"strings"
	"sync"
	"sync/atomic"

	r "github.com/Trisia/randomness"
	"github.com/Trisia/randomness/detect"

	"verif/checks/fast"
	"verif/common"
	"verif/e1"
	"verif/seam"
	"verif/wf"
)

// memo wraps the real registry runners: a periodic stream has few distinct samples, each is judged once.
type memoKey struct {
	item int
	sum  [20]byte
}

type memoVal struct {
	once sync.Once
	res  *r.TestResult
	pv   interface{}
}

var (
	memo     sync.Map
	computed int64
	hits     int64
)

func installMemo() {
	for i := range r.TestMethodArr {
		item := i
		orig := seam.OrigRunner(i)
		r.TestMethodArr[i].Runner = func(data []byte) *r.TestResult {
			k := memoKey{item, sha1.Sum(data)}
			v, _ := memo.LoadOrStore(k, &memoVal{})
			mv := v.(*memoVal)
			first := false
			mv.once.Do(func() {
				first = true
				mv.pv = common.Catch(func() { mv.res = orig(data) })
				atomic.AddInt64(&computed, 1)
			})
			if !first {
				atomic.AddInt64(&hits, 1)
			}
			if mv.pv != nil {
				panic(mv.pv)
			}
			cp := *mv.res
			return &cp
		}
	}
}

// periodic source: repeats a period for ever, safe for concurrent use.
type periodic struct {
	mu     sync.Mutex
	period []byte
	pos    int
	limit  int // > 0: the stream ends (io.EOF) after limit bytes
	served int
}

func (p *periodic) Read(b []byte) (int, error) {
	p.mu.Lock()
	defer p.mu.Unlock()
	if p.limit > 0 || p.limit == -1 {
		rem := p.limit - p.served
		if p.limit == -1 {
			rem = 0
		}
		if rem <= 0 {
			return 0, io.EOF
		}
		if len(b) > rem {
			b = b[:rem]
		}
		p.served += len(b)
	}
	for i := range b {
		b[i] = p.period[p.pos]
		p.pos++
		if p.pos == len(p.period) {
			p.pos = 0
		}
	}
	return len(b), nil
}

type stream struct {
	name   string
	period []byte
}

func Run(ctx *common.Ctx) int {
	quick := ctx.Quick()
	installMemo()
	defer seam.Restore()
	var streams []stream
	consts := []int{}
	if quick {
		consts = []int{0x00, 0xFF, 0x55, 0xAA, 0x01, 0x80, 0x0F, 0xF0, 0x33, 0x5A, 0xC3, 0x7F, 0xFE, 0x10, 0x08, 0x69}
	} else {
		for v := 0; v < 256; v++ {
			consts = append(consts, v)
		}
	}
	for _, v := range consts {
		streams = append(streams, stream{fmt.Sprintf("constant byte 0x%02x", v), []byte{byte(v)}})
	}
	periods := []int{2, 3, 64}
	if !quick {
		periods = nil
		for p := 2; p <= 64; p++ {
			periods = append(periods, p)
		}
	}
	for _, p := range periods {
		cnt := make([]byte, p)
		for i := range cnt {
			cnt[i] = byte(i)
		}
		streams = append(streams, stream{fmt.Sprintf("period %d: counter 0..%d", p, p-1), cnt})
		if quick && p != 64 {
			continue
		}
		bal := make([]byte, p)
		mix := []byte{0x55, 0xAA, 0x0F, 0xF0, 0x33, 0xCC, 0x69, 0x96}
		for i := range bal {
			bal[i] = mix[(i*3+i/8)%len(mix)]
		}
		streams = append(streams, stream{fmt.Sprintf("period %d: bit-balanced bytes", p), bal})
		if !quick {
			fl := make([]byte, p)
			x := uint32(p)*2654435761 + 12345
			for i := range fl {
				x ^= x << 13
				x ^= x >> 17
				x ^= x << 5
				fl[i] = byte(x >> 11)
			}
			streams = append(streams, stream{fmt.Sprintf("period %d: fixed filler bytes", p), fl})
		}
	}
	// a lone 0x01 in zeros at each position, p in {2, 63, 64} (the 64-byte case makes 500-bit blocks 0^499 1)
	lone := []int{64}
	if !quick {
		lone = []int{2, 63, 64}
	}
	for _, p := range lone {
		for pos := 0; pos < p; pos++ {
			if quick && pos%16 != 15 {
				continue
			}
			per := make([]byte, p)
			per[pos] = 0x01
			streams = append(streams, stream{fmt.Sprintf("period %d: a lone 0x01 at byte %d", p, pos), per})
		}
	}
	type wfn struct {
		name string
		f    func(io.Reader) (bool, error)
	}
	var fns []wfn
	for i := range wf.All {
		w := wf.All[i]
		fns = append(fns, wfn{w.Name + "Detect", w.Seq}, wfn{w.Name + "DetectFast", w.Fast})
	}
	var evals int64
	var samples []interface{}
	var smu sync.Mutex
	capped := false
	// a healthy source judged earlier in the same process (a device that gets stuck later): the parallel variants are
	// first called on a healthy stream, and again before every second bad stream; nothing of those calls may leak
	healthyPeriod := make([]byte, 50*125000+64)
	hx := uint64(88172645463325252)
	for i := range healthyPeriod {
		hx ^= hx << 13
		hx ^= hx >> 7
		hx ^= hx << 17
		healthyPeriod[i] = byte(hx >> 23)
	}
	primed := map[string]string{}
	for _, fn := range fns {
		if !strings.HasSuffix(fn.name, "Fast") {
			continue
		}
		if quick && fn.name == "FactoryDetectFast" {
			continue // 50 real rounds on 10^6 bits: thorough only
		}
		v, err := fn.f(&periodic{period: healthyPeriod})
		primed[fn.name] = fmt.Sprint(v, " ", err)
		evals++
	}
	rejectedBy := common.NewCounter()
	common.ParFor(len(streams), func(si int) {
		st := streams[si]
		for _, fn := range fns {
			if ctx.Expired() {
				capped = true
				return
			}
			var v bool
			var err error
			if _, ok := primed[fn.name]; ok && si%2 == 0 {
				_, _ = fn.f(&periodic{period: healthyPeriod}) // memoised: costs only the reads
			}
			pv := common.Catch(func() { v, err = fn.f(&periodic{period: st.period}) })
			atomic.AddInt64(&evals, 1)
			key := fmt.Sprintf("%s/%s", fn.name, st.name)
			rep := map[string]interface{}{"workflow": fn.name, "stream": st.name, "period_hex": fmt.Sprintf("%x", st.period)}
			switch {
			case pv != nil:
				ctx.Report(key+"/panic", fmt.Sprintf("%s panicked on the stream '%s': %v", fn.name, st.name, pv), rep)
			case v || err == nil:
				ctx.Report(key+"/accepted", fmt.Sprintf("%s returned (%v, %v) on the stream '%s' (period %d bytes)", fn.name, v, err, st.name, len(st.period)), rep)
			default:
				rejectedBy.Add(fmt.Sprintf("%s: item %d", fn.name, seam.NamedItem(err)))
			}
			smu.Lock()
			if len(samples) < 6 && si%(len(streams)/6+1) == 0 && fn.name == "FactoryDetect" {
				samples = append(samples, map[string]interface{}{"workflow": fn.name, "stream": st.name, "returned": fmt.Sprint(v, " ", err)})
			}
			smu.Unlock()
		}
	})
	// the same streams when they END early (a stuck device that also stops delivering): still rejected - never a
	// judgement on the few samples, or on no sample at all, that were read before the end
	var truncEvals int64
	type trunc struct {
		si, fi, limit int
	}
	var truncs []trunc
	sizes := map[string][2]int{"Factory": {125000, 50}, "PowerOn": {125000, 20}, "Period": {2500, 20}}
	for _, si := range []int{0, 1, len(consts), len(consts) + len(periods) - 1} {
		if si >= len(streams) {
			continue
		}
		for fi, fn := range fns {
			ns := sizes[strings.TrimSuffix(strings.TrimSuffix(fn.name, "Fast"), "Detect")]
			for _, l := range []int{-1, 1, ns[0] / 2, ns[0] * 4 / 5, ns[0] - 1, ns[0], ns[0] + 1, 3 * ns[0], ns[0]*ns[1] - 1} {
				truncs = append(truncs, trunc{si, fi, l})
			}
		}
	}
	common.ParFor(len(truncs), func(i int) {
		c := truncs[i]
		st, fn := streams[c.si], fns[c.fi]
		var v bool
		var err error
		pv := common.Catch(func() { v, err = fn.f(&periodic{period: st.period, limit: c.limit}) })
		atomic.AddInt64(&truncEvals, 1)
		if pv != nil || v || err == nil {
			n := c.limit
			if n < 0 {
				n = 0
			}
			ctx.Report(fmt.Sprintf("%s/%s/ends-early", fn.name, st.name), fmt.Sprintf("%s returned (%v, %v) on the stream '%s' that ends after %d bytes (panic=%v)", fn.name, v, err, st.name, n, pv),
				map[string]interface{}{"workflow": fn.name, "stream": st.name, "ends_after_bytes": n})
		}
	})
	evals += truncEvals
	samples = append(samples, map[string]interface{}{"part": "periodic streams that end early", "runs": truncEvals, "lengths": "0, 1, N/2, 4N/5, N-1, N, N+1, 3N, sN-1 bytes (N = sample size)"})
	seam.Restore()
	// single-shot detection on all-zero and all-one sources, every admissible length
	var lens []int
	for l := 16; l <= 4096; l++ {
		lens = append(lens, l)
	}
	lens = append(lens, 12500, 125000)
	// and far beyond: around every power of two up to 2^22 bytes (counters, accumulators and index types
	// that are wide enough for a 10^6-bit sample need not be wide enough for a stuck source)
	for k := 13; k <= 22; k++ {
		p := 1 << uint(k)
		lens = append(lens, p-1, p, p+1, p+p/16, p+p/3)
	}
	if !quick {
		lens = append(lens, 1<<23, 1<<24, 1<<24+1, 12500000)
	}
	// and where 64-bit products of counts wrap: a stuck source makes one pattern count equal to the number of blocks N,
	// and 2^8 * N^2 passes 2^63 from N = 2^27.5 (about 1.9e8 bytes with m=8)
	hugeNote := "skipped (less than 6 GB available)"
	if memAvailableGB() >= 6 {
		lens = append(lens, 200000000, 1<<28-1)
		hugeNote = "200000000 and 2^28-1 bytes"
		if !quick {
			lens = append(lens, 1<<27+1, 190000000, 230000000, 1<<28+1, 300000000)
			hugeNote += ", 2^27+1, 190000000, 230000000, 2^28+1, 300000000 bytes"
		}
	}
	healthy := make([]byte, 8192)
	hy := uint32(2463534242)
	for i := range healthy {
		hy ^= hy << 13
		hy ^= hy >> 17
		hy ^= hy << 5
		healthy[i] = byte(hy >> 9)
	}
	for li, l := range lens {
		for _, b := range []byte{0x00, 0xFF} {
			var v bool
			var err error
			if li%2 == 0 && l <= 8192 {
				// a healthy source was judged just before (a device that gets stuck later): nothing of that call may leak into this one
				_, _ = detect.SingleDetect(&periodic{period: healthy}, 4096+l%4096)
			}
			pv := common.Catch(func() { v, err = detect.SingleDetect(&periodic{period: []byte{b}}, l) })
			evals++
			if pv != nil || v {
				ctx.Report(fmt.Sprintf("SingleDetect/0x%02x", b), fmt.Sprintf("SingleDetect(%d bytes) on a source stuck at 0x%02x returned (%v, %v) panic=%v", l, b, v, err, pv), map[string]interface{}{"bytes": l, "value": b})
			}
		}
	}
	// ---------- a rejected source beside a healthy one ----------
	// "always rejected" includes the moment another goroutine is judging a healthy source with the same kind of
	// detection: under the controlled scheduler (stub runners: the bad stream's samples fail item 0, as a stuck
	// source's do) the bad call and a concurrent call on a healthy stream are interleaved at every Read/round point
	// with <= 1 scheduling deviation under four default policies; each must return what it returns alone
	pairExecs, pairTasks := 0, 0
	var pairInfo *e1.BuildInfo
	if info, err := fast.BuildInstrumented(ctx); err != nil {
		ctx.Note("concurrent-pair part skipped: the detect package cannot be instrumented (%v)", err)
		capped = true
	} else {
		pairInfo = info
		var tasks []e1.Task
		for wi := range wf.All {
			w := &wf.All[wi]
			if quick && w.Name == "Factory" {
				continue
			}
			for _, judgeSeq := range []bool{true, false} {
				for _, other := range []string{"seq", "fast"} {
					for _, pol := range []int{0, 1, 2, 3} {
						if quick && w.Name == "PowerOn" && pol%2 == 1 {
							continue
						}
						fast.MkTaskX("C14", "c14", w, "item0-below-threshold", fast.SrcSpec{Kind: "full", Index2: -1}, 2, 1, pol, 1, fast.Params{Pair: other, JudgeSeq: judgeSeq}, &tasks)
					}
				}
			}
		}
		m := e1.RunTasks(ctx, info.Bin, tasks, 0, false)
		pc := fast.Report(ctx, m, info, nil)
		pairExecs, pairTasks = m.Execs, len(tasks)
		if !pc["exhaustive"].(bool) {
			capped = true
		}
		evals += int64(m.Execs)
	}
	_ = pairInfo
	samples = append(samples, map[string]interface{}{"part": "rejected source beside a healthy one", "tasks": pairTasks, "schedules": pairExecs})
	samples = append(samples, map[string]interface{}{"function": "SingleDetect", "streams": "0x00.. and 0xFF.. (every other length preceded by a healthy request of 4096.. bytes)", "lengths": "every 16..4096, 12500, 125000, and 2^k-1, 2^k, 2^k+1, 2^k(1+1/16), 2^k(1+1/3) for k=13..22 (thorough also 2^23, 2^24, 12500000)", "lengths_where_64bit_products_wrap": hugeNote})
	cov := common.Coverage{
		"evaluations":         int(evals),
		"distinct_nontrivial": len(streams) + 2,
		"rule": "every listed periodic byte stream (constant bytes: 16 in quick, all 256 in thorough; periods 2..64 (quick 2,3,64) x {counter, bit-balanced, fixed filler}; a lone 0x01 in zeros at every position for p in {2,63,64}) x the six multi-sample workflows with the REAL registry runners (memoised per (item, sample hash): a periodic stream has at most p/gcd(p,n) distinct samples); " +
			"four of the streams ending after 0, 1, N/2, 4N/5, N-1, N, N+1, 3N, sN-1 bytes through all six workflows; a rejected stream judged while a second goroutine judges a healthy stream with the same detection (seq|fast x seq|fast, stub runners, every interleaving with <= 1 deviation under four default policies); " +
			"all-zero / all-one sources x every single-shot length; oracle: verdict false with a non-nil error, no panic; distinct = number of distinct streams",
		"samples":                   samples,
		"streams":                   len(streams),
		"real_runner_evaluations":   computed,
		"memo_hits":                 hits,
		"rejections_by_named_item":  rejectedBy.Map(),
		"concurrent_pair_schedules": pairExecs,
		"exhaustive":                !capped,
	}
	return ctx.Finish("exploration", cov, []string{"the parallel variants run free-running on a locked source: the property quantifies inputs only (schedules are C08's subject)",
		"period content beyond the listed kinds is not enumerated (256^p contents)"})
}

func memAvailableGB() int {
	b, err := os.ReadFile("/proc/meminfo")
	if err != nil {
		return 0
	}
	for _, l := range strings.Split(string(b), "\n") {
		if strings.HasPrefix(l, "MemAvailable:") {
			var kb int
			fmt.Sscanf(strings.TrimSpace(strings.TrimPrefix(l, "MemAvailable:")), "%d", &kb)
			return kb / 1024 / 1024
		}
	}
	return 0
}
