// Package c08: parallel (Fast) workflows give the sequential verdict under every schedule (E1 + E3, race pass).
package c08

import (
	"fmt"
	"runtime"
	"sync"

	"verif/checks/fast"
	"verif/common"
	"verif/e1"
	"verif/seam"
	"verif/wf"
)

func Run(ctx *common.Ctx) int {
	info, err := fast.BuildInstrumented(ctx)
	if err != nil {
		ctx.Note("the parallel workflows cannot be instrumented (%v); falling back to free-running executions", err)
		cov := fast.FreeRunning(ctx, "c08", []fast.SrcSpec{{Kind: "full", Index2: -1}, {Kind: "uniform", Index2: -1, Size: "half"}}, firstLine(err.Error()))
		return ctx.Finish("model_checking", cov, []string{"degraded mode: schedules sampled by the Go runtime"})
	}
	quick := ctx.Quick()
	var tasks []e1.Task
	for wi := range wf.All {
		w := &wf.All[wi]
		for _, sc := range fast.Catalogue(w) {
			for _, W := range []int{1, 2, 3} {
				for _, pol := range []int{0, 1, 2, 3} {
					bound, shards := 1, 1
					if quick {
						// quick: every scenario at bound 1 under the ascending-id policy; the other two policies for W>=2 on the all-pass scenario
						if pol != 0 && (W == 1 || !(sc.Name == "all-pass" || (pol == 3 && sc.Name == "item0-at-threshold" && w.Name != "Factory"))) {
							continue
						}
						if w.Name == "Factory" && W == 3 && pol != 0 {
							continue
						}
					} else {
						if W == 1 && pol != 0 {
							continue
						}
						if sc.Name == "all-pass" || sc.Name == "pairwise-distinct-q" || sc.Name == "item12-below-threshold" {
							if w.Name == "Period" || W <= 2 {
								bound = 2
								shards = 16
							}
						}
						if w.Name == "Factory" && bound == 2 {
							bound, shards = 1, 1 // 50 x 125000-byte samples: bound 2 is out of reach, stated in the evidence
						}
					}
					fastTask(&tasks, w, sc.Name, W, bound, pol, shards)
				}
			}
		}
	}
	// a concurrency-safe source may still deliver short reads: a few such sources under schedule exploration
	for wi := range wf.All {
		w := &wf.All[wi]
		if quick && w.Name == "Factory" {
			continue
		}
		for _, W := range []int{2, 3} {
			if quick && W == 3 {
				continue
			}
			var specs []fast.SrcSpec
			for _, idx := range []int{0, 1, w.S / 2, w.S - 1} {
				specs = append(specs, fast.SrcSpec{Kind: "short", Index: idx, Index2: -1, Size: "half"})
			}
			specs = append(specs, fast.SrcSpec{Kind: "uniform", Index2: -1, Size: "half"})
			if w.Name == "Period" {
				specs = append(specs, fast.SrcSpec{Kind: "uniform", Index2: -1, Size: "997"})
			}
			for _, sp := range specs {
				fast.MkTask("C08", "c08", w, "item0-at-threshold", sp, W, 1, 0, 1, &tasks)
			}
		}
	}
	// call sequences inside one process: a parallel workflow of another sample size ran before (on an empty source)
	for _, pr := range [][2]string{{"Period", "PowerOn"}, {"Period", "Factory"}, {"PowerOn", "Period"}, {"Factory", "Period"}} {
		w := wf.ByName(pr[0])
		if quick && w.Name == "Factory" {
			continue
		}
		for _, W := range []int{1, 2} {
			fast.MkTaskPrimed("C08", "c08", w, "item0-at-threshold", fast.SrcSpec{Kind: "full", Index2: -1}, W, 0, 0, 1, pr[1], &tasks)
			fast.MkTaskPrimed("C08", "c08", w, "all-pass", fast.SrcSpec{Kind: "uniform", Index2: -1, Size: "half"}, W, 0, 3, 1, pr[1], &tasks)
		}
	}
	// streams that fail: same (false, error) as the sequential twin, in particular no crash when several workers
	// meet errors (of different concrete types) after the first one
	for wi := range wf.All {
		w := &wf.All[wi]
		if quick && w.Name == "Factory" {
			continue
		}
		for _, W := range []int{2, 3} {
			for _, sp := range []fast.SrcSpec{{Kind: "fault", Index: w.S / 2, Index2: -1, Err: "typedthen"}, {Kind: "fault", Index: w.S - 1, Index2: -1, Err: "eof", Sticky: true},
				{Kind: "fault", Index: 0, Index2: -1, Err: "custom"}, {Kind: "fault", Index: 1, Index2: -1, Err: "shortthen"}} {
				fast.MkTask("C08", "c08", w, "all-pass", sp, W, W-2, 0, 1, &tasks)
				fast.MkTask("C08", "c08", w, "all-pass", sp, W, 0, 3, 1, &tasks)
			}
		}
	}
	// two consecutive calls on one source (two sets of samples, a stream that ends exactly after them with
	// the final Read reporting EOF together with its bytes): the pair of results and the bytes consumed must
	// equal the sequential twin's - a parallel variant that reads ahead or leaves bytes behind judges other
	// samples in its second call
	for wi := range wf.All {
		w := &wf.All[wi]
		if quick && w.Name == "Factory" {
			continue
		}
		for _, W := range []int{1, 2} {
			for _, scn := range []string{"all-pass", "item11-below-threshold"} {
				fast.MkTaskX("C08", "c08", w, scn, fast.SrcSpec{Kind: "full", Index2: -1}, W, W-1, 0, 1, fast.Params{Twice: true}, &tasks)
				fast.MkTaskX("C08", "c08", w, scn, fast.SrcSpec{Kind: "eofwith", Index2: -1}, W, 0, 3, 1, fast.Params{Twice: true}, &tasks)
			}
		}
	}
	ctx.Printf("C08: %d exploration tasks (instrumented constructs: %v)\n", len(tasks), info.Counts)
	m := e1.RunTasks(ctx, info.Bin, tasks, 0, false)
	// race pass: same bodies, free-running, -race
	raceRuns := 0
	raceBin, rerr := e1.BuildPlain(ctx, "runner-race", "./cmd/runner", true)
	if rerr != nil {
		ctx.Note("race build failed: %v", rerr)
	} else {
		for _, gmp := range []string{"1", "2", "16"} {
			if ok, _ := fast.RacePass(ctx, raceBin, []string{"C08-race", "--tier", ctx.Tier, "--work", ctx.Work, "--gomaxprocs", gmp}, "race/GOMAXPROCS="+gmp); ok {
				raceRuns++
			}
		}
	}
	cov := fast.Report(ctx, m, info, common.Coverage{
		"race_pass_runs": raceRuns,
		"bounds":         "W in {1,2,3} workers; deviation bound 1 in quick (policy 0 for every scenario, policies 1,2 on all-pass), thorough: bound 2 on all-pass / pairwise-distinct-q / item12-below-threshold for Period (W<=3) and PowerOn (W<=2), bound 1 elsewhere; Factory bound 1",
	})
	return ctx.Finish("model_checking", cov, []string{
		"sequential consistency at the instrumented operations (channels, WaitGroup, atomics, source Read entry/exit, round entry); plain unsynchronised accesses are delegated to the free-running -race pass",
		"stub runners answer from the sample's own bytes (marker stream), so a schedule's feasibility does not depend on the contents",
		"a (sample,item) pair never judged, or torn sample bytes, imply a stream on which the verdict differs (stated in DESIGN.md C08)",
	})
}

func fastTask(tasks *[]e1.Task, w *wf.WF, scenario string, W, bound, pol, shards int) {
	fast.MkTask("C08", "c08", w, scenario, fast.SrcSpec{Kind: "full", Index2: -1}, W, bound, pol, shards, tasks)
}

// Race is the body of the free-running -race pass (sub-command C08-race).
func Race(ctx *common.Ctx, gomaxprocs int) int {
	runtime.GOMAXPROCS(gomaxprocs)
	seam.InstallStubs()
	for wi := range wf.All {
		w := &wf.All[wi]
		if ctx.Quick() && w.Name == "Factory" {
			continue
		}
		var wg sync.WaitGroup
		for _, sc := range fast.Catalogue(w)[:3] {
			sc := sc
			wg.Add(1)
			go func() {
				defer wg.Done()
				run := seam.NewRun(sc)
				defer run.Close()
				v, err := w.Fast(&seam.Source{Data: run.Stream(w.S, w.N)})
				_ = fmt.Sprint(v, err)
			}()
		}
		wg.Wait()
	}
	seam.Restore()
	// periodic variant with the real runners
	p := wf.ByName("Period")
	data := make([]byte, p.S*p.N)
	x := uint64(88172645463325252)
	for i := range data {
		x ^= x << 13
		x ^= x >> 7
		x ^= x << 17
		data[i] = byte(x >> 24)
	}
	_, _ = p.Fast(&seam.Source{Data: data})
	return 0
}

func firstLine(s string) string {
	for i, c := range s {
		if c == '\n' {
			return s[:i]
		}
	}
	return s
}
