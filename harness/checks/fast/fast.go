// Package fast explores the parallel (Fast) detection workflows under the controlled scheduler.
// It serves C08 (schedules), C09 (faults x schedules) and C10 (short reads x schedules).
package fast

import (
	"encoding/json"
	"errors"
	"fmt"
	"io"
	"math"
	"sort"
	"time"

	"verif/e1"
	"verif/explore"
	"verif/model"
	"verif/seam"
	"verif/vsched"
	"verif/wf"
)

// SrcSpec describes how the source deviates from "fill the buffer, no error".
type SrcSpec struct {
	Kind   string `json:"kind"`   // full | short | fault | uniform
	Index  int    `json:"index"`  // Read call index of the deviation (short, fault)
	Index2 int    `json:"index2"` // second deviation (-1 none)
	Size   string `json:"size"`   // short: "1" | "half" | "minus1" ; uniform: chunk size as number
	Err    string `json:"err"`    // fault: eof | unexpected | custom | partial1 | partialhalf | partialminus1 | shortthen
	Sticky bool   `json:"sticky"`
	Offset int    `json:"offset,omitempty"` // faultat: byte offset in the stream at which the source fails
}

func (s SrcSpec) String() string {
	switch s.Kind {
	case "short":
		if s.Index2 >= 0 {
			return fmt.Sprintf("short(%s)@read%d+%d", s.Size, s.Index, s.Index2)
		}
		return fmt.Sprintf("short(%s)@read%d", s.Size, s.Index)
	case "fault":
		st := "transient"
		if s.Sticky {
			st = "sticky"
		}
		return fmt.Sprintf("fault(%s,%s)@read%d", s.Err, st, s.Index)
	case "uniform":
		return "uniform(" + s.Size + ")"
	case "faultat":
		return fmt.Sprintf("fault(%s)@byte%d", s.Err, s.Offset)
	case "eofwith":
		return "eof-with-last-bytes(" + s.Size + ")"
	}
	return "full"
}

// injected is a distinct concrete error type (io.EOF and errors.New values share *errors.errorString).
type injected struct{ msg string }

func (e *injected) Error() string { return e.msg }

var ErrCustom error = &injected{"verif: injected source failure"}

// ErrList is an error whose dynamic type is a slice (as go/scanner.ErrorList, or a joined list of device errors):
// comparable only against nil, not usable as a map key.
type ErrList []error

func (e ErrList) Error() string { return fmt.Sprintf("verif: %d injected device errors", len(e)) }

var ErrUnhashable error = ErrList{ErrCustom, io.ErrUnexpectedEOF}

var _ = errors.New

func sizeOf(code string, req int) int {
	switch code {
	case "1":
		return 1
	case "half":
		return (req + 1) / 2
	case "minus1":
		return req - 1
	}
	var n int
	fmt.Sscanf(code, "%d", &n)
	if n <= 0 {
		n = req
	}
	return n
}

// MakeSource builds the source for a spec over data.
func MakeSource(spec SrcSpec, data []byte) *seam.Source {
	src := &seam.Source{Data: data, Sticky: spec.Sticky}
	switch spec.Kind {
	case "short":
		src.Policy = func(call, req, rem int) (seam.Answer, bool) {
			if call == spec.Index || (spec.Index2 >= 0 && call == spec.Index2) {
				return seam.Answer{N: sizeOf(spec.Size, req)}, true
			}
			return seam.Answer{}, false
		}
	case "uniform":
		src.Policy = func(call, req, rem int) (seam.Answer, bool) {
			return seam.Answer{N: sizeOf(spec.Size, req)}, true
		}
	case "faultat":
		// the stream is delivered up to a byte offset whatever the sizes of the Reads, then the source fails for good
		// (together with the last bytes for "partial", on the next call otherwise)
		src.Sticky = true
		src.Policy = func(call, req, rem int) (seam.Answer, bool) {
			pos := len(data) - rem
			e := ErrCustom
			if spec.Err == "eof" {
				e = io.EOF
			}
			if pos >= spec.Offset {
				return seam.Answer{N: 0, Err: e}, true
			}
			if pos+req > spec.Offset {
				if spec.Err == "partial" {
					return seam.Answer{N: spec.Offset - pos, Err: e}, true
				}
				return seam.Answer{N: spec.Offset - pos}, true
			}
			return seam.Answer{}, false
		}
	case "eofwith":
		// the stream ends exactly after the last sample and the final Read reports (n>0, io.EOF)
		src.EOFWithData = true
		if spec.Size != "" {
			src.Policy = func(call, req, rem int) (seam.Answer, bool) {
				return seam.Answer{N: sizeOf(spec.Size, req)}, true
			}
		}
	case "fault":
		shortDone := false
		src.Policy = func(call, req, rem int) (seam.Answer, bool) {
			if spec.Err == "shortthen" {
				// (k, nil) followed by (0, EOF) for ever
				if call == spec.Index {
					shortDone = true
					return seam.Answer{N: (req + 1) / 2}, true
				}
				if shortDone && call > spec.Index {
					return seam.Answer{N: 0, Err: io.EOF}, true
				}
				return seam.Answer{}, false
			}
			if spec.Err == "typedthen" {
				// a typed device error once, then the stream is over (errors of two different concrete types)
				if call == spec.Index {
					return seam.Answer{N: 0, Err: ErrCustom}, true
				}
				if call > spec.Index {
					return seam.Answer{N: 0, Err: io.EOF}, true
				}
				return seam.Answer{}, false
			}
			if call != spec.Index {
				return seam.Answer{}, false
			}
			switch spec.Err {
			case "eof":
				return seam.Answer{N: 0, Err: io.EOF}, true
			case "unexpected":
				return seam.Answer{N: 0, Err: io.ErrUnexpectedEOF}, true
			case "custom":
				return seam.Answer{N: 0, Err: ErrCustom}, true
			case "errlist":
				return seam.Answer{N: 0, Err: ErrUnhashable}, true
			case "partial1":
				return seam.Answer{N: 1, Err: ErrCustom}, true
			case "partialhalf":
				return seam.Answer{N: req / 2, Err: ErrCustom}, true
			case "partialminus1":
				return seam.Answer{N: req - 1, Err: ErrCustom}, true
			}
			return seam.Answer{}, false
		}
	}
	return src
}

// Params of one exploration.
type Params struct {
	Workflow string    `json:"workflow"`
	Scenario string    `json:"scenario"`
	Src      SrcSpec   `json:"src"`
	Srcs     []SrcSpec `json:"srcs,omitempty"`  // several source behaviours explored one after the other in one sub-process
	Mode     string    `json:"mode"`            // c08 | c09 | c10
	Prime    string    `json:"prime,omitempty"` // another parallel workflow called first in the same execution, on an empty source
	// Twice (c08/c10): the workflow is called twice on the same source, whose stream holds a second
	// set of samples with another scenario; both results must equal the sequential twin's two results,
	// and both must have consumed the same number of stream bytes.
	Twice bool `json:"twice,omitempty"`
	// Repeat (c09): the workflow is called Repeat times on fresh failing sources before the judged call
	// (a resource leaked by a failing call - a limiter slot, a pooled buffer - shows in the later ones).
	Repeat int `json:"repeat,omitempty"`
	// Pair: "seq" | "fast": a call of the same workflow (sequential or parallel variant) on ANOTHER, healthy
	// source (scenario all-pass) runs concurrently in a second thread; both calls must return exactly what
	// they return alone. JudgeSeq: the judged call is the sequential variant.
	Pair     string `json:"pair,omitempty"`
	JudgeSeq bool   `json:"judge_seq,omitempty"`
}

// ---------- scenario catalogue (deterministic, shared by parent and sub-process) ----------

func spread(s, count int) []int {
	// count distinct sample positions spread over 0..s-1
	var out []int
	for j := 0; j < count; j++ {
		out = append(out, (j*7+3)%s)
	}
	sort.Ints(out)
	// (7 is coprime to 20 and 50, so the positions are distinct)
	return out
}

// criticalHistograms returns bin counts whose uniformity P is the closest below and above 0.0001.
func criticalHistograms(s int) (below, above []int) {
	bestB, bestA := math.Inf(1), math.Inf(1)
	wf.Partitions(s, 10, func(p []int) {
		c := make([]int, 10)
		copy(c, p)
		u := model.UniformityCounts(c)
		if u < 0.0001 && 0.0001-u < bestB {
			bestB = 0.0001 - u
			below = append([]int{}, c...)
		}
		if u >= 0.0001 && u-0.0001 < bestA {
			bestA = u - 0.0001
			above = append([]int{}, c...)
		}
	})
	return
}

func setHist(sc *seam.Scenario, item int, counts []int) {
	k := 0
	for b, c := range counts {
		for j := 0; j < c; j++ {
			sc.Q[k][item] = (float64(b) + 0.5) / 10
			k++
		}
	}
}

var catCache = map[string][]*seam.Scenario{}

// Catalogue lists the verdict-sensitive scenarios of a workflow.
func Catalogue(w *wf.WF) []*seam.Scenario {
	if c, ok := catCache[w.Name]; ok {
		return c
	}
	s := w.S
	t := model.Threshold(s)
	var out []*seam.Scenario
	out = append(out, seam.NewScenario("all-pass", s))
	for _, j := range []int{0, 11, 12, 14} {
		at := seam.NewScenario(fmt.Sprintf("item%d-at-threshold", j), s)
		for _, k := range spread(s, s-t) {
			at.Pass[k][j] = false
		}
		out = append(out, at)
		bl := seam.NewScenario(fmt.Sprintf("item%d-below-threshold", j), s)
		for _, k := range spread(s, s-t+1) {
			bl.Pass[k][j] = false
		}
		out = append(out, bl)
	}
	below, above := criticalHistograms(s)
	hb := seam.NewScenario("item5-uniformity-just-below", s)
	setHist(hb, 5, below)
	ha := seam.NewScenario("item5-uniformity-just-above", s)
	setHist(ha, 5, above)
	hb13 := seam.NewScenario("item13-uniformity-just-below", s)
	setHist(hb13, 13, below)
	out = append(out, hb, ha, hb13)
	dq := seam.NewScenario("pairwise-distinct-q", s)
	for k := 0; k < s; k++ {
		for i := 0; i < 15; i++ {
			dq.Q[k][i] = (float64((k*3+i)%s) + 0.25) / float64(s)
		}
	}
	out = append(out, dq)
	two := seam.NewScenario("item7-uniformity-and-item2-count", s)
	cnt := make([]int, 10)
	cnt[9] = s
	setHist(two, 7, cnt)
	for _, k := range spread(s, s-t+1) {
		two.Pass[k][2] = false
	}
	out = append(out, two)
	rev := seam.NewScenario("item2-uniformity-and-item7-count", s)
	setHist(rev, 2, cnt)
	for _, k := range spread(s, s-t+1) {
		rev.Pass[k][7] = false
	}
	out = append(out, rev)
	catCache[w.Name] = out
	return out
}

func scenarioByName(w *wf.WF, name string) *seam.Scenario {
	for _, sc := range Catalogue(w) {
		if sc.Name == name {
			return sc
		}
	}
	return nil
}

// SeqReference runs the sequential twin on the same bytes (full reads) under the same stubs.
type Ref struct {
	Verdict bool
	Item    int
	Err     string
}

func SeqReference(w *wf.WF, sc *seam.Scenario) Ref {
	run := seam.NewRun(sc)
	defer run.Close()
	v, err := w.Seq(&seam.Source{Data: run.Stream(w.S, w.N)})
	r := Ref{Verdict: v, Item: seam.NamedItem(err)}
	if err != nil {
		r.Err = err.Error()
	}
	return r
}

// Handle is the sub-process entry: one exploration task (one or several source behaviours).
func Handle(t e1.Task) (*e1.Result, map[uint64]struct{}) {
	var p Params
	if err := json.Unmarshal(t.Params, &p); err != nil {
		return &e1.Result{Task: t, ToolError: "bad params: " + err.Error()}, nil
	}
	if len(p.Srcs) == 0 {
		return handleOne(t, p)
	}
	start := time.Now()
	total := &e1.Result{Task: t, Outcomes: map[string]int{}, Signatures: map[string]int{}, Extra: map[string]int{}}
	states := map[uint64]struct{}{}
	for si, sp := range p.Srcs {
		q := p
		q.Src, q.Srcs = sp, nil
		t1 := t
		if t.Budget > 0 {
			t1.Budget = t.Budget - time.Since(start).Seconds()
			if t1.Budget <= 0 {
				total.Capped = fmt.Sprintf("deadline after %d of %d source behaviours", si, len(p.Srcs))
				break
			}
		}
		r, st := handleOne(t1, q)
		total.Execs += r.Execs
		total.Transitions += r.Transitions
		if r.MaxPoints > total.MaxPoints {
			total.MaxPoints, total.Sample = r.MaxPoints, r.Sample
		}
		if r.MaxThreads > total.MaxThreads {
			total.MaxThreads = r.MaxThreads
		}
		total.RootPoints = r.RootPoints
		for k, v := range r.Outcomes {
			total.Outcomes[k] += v
		}
		for k, v := range r.Signatures {
			total.Signatures[k] += v
		}
		for k, v := range r.Extra {
			total.Extra[k] += v
		}
		for h := range st {
			states[h^uint64(si+1)*0x9E3779B97F4A7C15] = struct{}{}
		}
		if r.Capped != "" {
			total.Capped = r.Capped
		}
		if r.ToolError != "" {
			total.ToolError = sp.String() + ": " + r.ToolError
			break
		}
		if r.Found != nil {
			total.Found = r.Found
			total.Found.Violation = sp.String() + ": " + r.Found.Violation
			total.Extra["found_src_index"] = si
			break
		}
	}
	total.NStates = len(states)
	total.WallS = time.Since(start).Seconds()
	return total, states
}

func handleOne(t e1.Task, p Params) (*e1.Result, map[uint64]struct{}) {
	start := time.Now()
	w := wf.ByName(p.Workflow)
	sc := scenarioByName(w, p.Scenario)
	if w == nil || sc == nil {
		return &e1.Result{Task: t, ToolError: "unknown workflow/scenario"}, nil
	}
	seam.InstallStubs()
	// reference values are computed under the scheduler too (see explore.Controlled)
	tainted := false
	refPanic := ""
	controlled := func(f func()) {
		leaked, pv := explore.Controlled(f, vsched.Options{NumCPU: t.W, MaxSteps: 4000000})
		tainted = tainted || leaked
		if pv != "" && refPanic == "" {
			refPanic = pv
		}
	}
	var ref Ref
	controlled(func() { ref = SeqReference(w, sc) })
	var sc2 *seam.Scenario
	var ref2 Ref
	refPos := 0
	if p.Twice {
		name2 := "item0-below-threshold"
		if sc.Name != "all-pass" {
			name2 = "all-pass"
		}
		sc2 = scenarioByName(w, name2)
		r1, r2 := seam.NewRun(sc), seam.NewRun(sc2)
		ss := &seam.Source{Data: append(r1.Stream(w.S, w.N), r2.Stream(w.S, w.N)...)}
		var v2 bool
		var e2 error
		controlled(func() {
			_, _ = w.Seq(ss)
			v2, e2 = w.Seq(ss)
		})
		ref2 = Ref{Verdict: v2, Item: seam.NamedItem(e2), Err: fmt.Sprint(e2)}
		refPos = ss.Pos()
		r1.Close()
		r2.Close()
	}
	// c08 on a stream that fails: the reference is the sequential twin on a source failing in the same way
	faulty := p.Mode == "c08" && p.Src.Kind == "fault"
	var refFV bool
	var refFErr error
	if faulty {
		rr := seam.NewRun(sc)
		controlled(func() { refFV, refFErr = w.Seq(MakeSource(p.Src, rr.Stream(w.S, w.N))) })
		rr.Close()
	}
	if refPanic != "" {
		// the sequential twin itself crashes: that is C07/C09's finding, not a comparison this task can make
		return &e1.Result{Task: t, Capped: "the sequential reference run panicked (" + refPanic + "); comparison skipped", WallS: time.Since(start).Seconds()}, nil
	}
	if tainted {
		return &e1.Result{Task: t, Capped: explore.PersistentNote, WallS: time.Since(start).Seconds()}, nil
	}
	orders := map[uint64]struct{}{}
	assign := map[uint64]struct{}{}
	// one reusable stream buffer; ids are patched per execution
	tmpl := seam.NewRun(sc)
	base := tmpl.Stream(w.S, w.N)
	tmpl.Close()
	var both []byte
	if p.Twice {
		both = append(append([]byte{}, base...), base...)
	}
	cfg := explore.Config{Name: t.Name, Bound: t.Bound, CostAll: t.CostAll, Shard: t.Shard, NShards: t.NShards, MaxExecs: t.MaxExec,
		Opt: vsched.Options{NumCPU: t.W, Policy: t.Policy, MaxSteps: 400000}}
	if t.Budget > 0 {
		cfg.Deadline = start.Add(time.Duration(t.Budget * float64(time.Second)))
	}
	cfg.NewExec = func() (func(), func(*vsched.Exec) explore.Verdict) {
		run := seam.NewRun(sc)
		run.PatchStream(base, w.S, w.N)
		src := MakeSource(p.Src, base)
		var run2 *seam.Run
		if p.Twice {
			run2 = seam.NewRun(sc2)
			run.PatchStream(both[:len(base)], w.S, w.N)
			run2.PatchStream(both[len(base):], w.S, w.N)
			src = MakeSource(p.Src, both)
		}
		var verdict, verdict2 bool
		var err, err2 error
		earlier := ""
		returned := false
		call := w.Fast
		if p.JudgeSeq {
			call = w.Seq
		}
		var runO *seam.Run
		var otherV bool
		var otherErr error
		var otherData []byte
		if p.Pair != "" {
			runO = seam.NewRun(scenarioByName(w, "all-pass"))
			otherData = runO.Stream(w.S, w.N)
		}
		body := func() {
			vsched.SetStateDigest(run.Digest)
			if pw := wf.ByName(p.Prime); pw != nil {
				// state left behind by an earlier call of another workflow (pooled buffers, caches) must not matter
				_, _ = pw.Fast(&seam.Source{Data: nil})
			}
			for r := 0; r < p.Repeat; r++ {
				if v, e := w.Fast(MakeSource(p.Src, base)); (v || e == nil) && earlier == "" {
					earlier = fmt.Sprintf("call %d of %d consecutive calls on failing sources returned (%v, %v)", r+1, p.Repeat+1, v, e)
				}
			}
			var pairWG vsched.WaitGroup
			if p.Pair != "" {
				other := w.Fast
				if p.Pair == "seq" {
					other = w.Seq
				}
				pairWG.Add(1)
				vsched.Go(func() {
					otherV, otherErr = other(&seam.Source{Data: otherData})
					pairWG.Done()
				})
			}
			verdict, err = call(src)
			if p.Pair != "" {
				pairWG.Wait()
			}
			if p.Twice {
				verdict2, err2 = w.Fast(src)
			}
			returned = true
		}
		check := func(x *vsched.Exec) explore.Verdict {
			defer run.Close()
			if run2 != nil {
				defer run2.Close()
			}
			if runO != nil {
				defer runO.Close()
			}
			item := seam.NamedItem(err)
			v := explore.Verdict{}
			jd := run.Judged()
			missing := 0
			for i := 0; i < w.Items; i++ {
				seen := map[int]bool{}
				for _, k := range jd[i] {
					seen[k] = true
				}
				for k := 0; k < w.S; k++ {
					if !seen[k] {
						missing++
					}
				}
			}
			// completion order of the samples (item 0 calls) and its digest
			var oh uint64 = 1469598103934665603
			for _, c := range run.CallSeq() {
				if c.Item == 0 {
					oh = (oh ^ uint64(c.Sample+1)) * 1099511628211
				}
			}
			orders[oh] = struct{}{}
			_ = assign
			v.Signature = fmt.Sprintf("%s ret=%v verdict=%v item=%d missing=%d torn=%d", x.Outcome, returned, verdict, item, missing, len(run.Torn))
			if p.Twice {
				v.Signature += fmt.Sprintf(" second=%v/%d", verdict2, seam.NamedItem(err2))
			}
			errs := fmt.Sprint(err)
			switch {
			case x.Outcome == vsched.OutPanic:
				v.Violation = fmt.Sprintf("panic: %s", x.PanicVal)
			case x.Outcome == vsched.OutDeadlock:
				v.Violation = fmt.Sprintf("deadlock: the call never returns; blocked: %v", x.Blocked)
			case x.Outcome == vsched.OutLeak && p.Mode == "c09":
				v.Violation = fmt.Sprintf("goroutine leak after return: %v", x.Blocked)
			case x.Outcome == vsched.OutHorizon:
				v.Violation = "livelock: step horizon exceeded"
			case p.Mode == "c09":
				if earlier != "" {
					v.Violation = earlier
				} else if verdict || err == nil {
					v.Violation = fmt.Sprintf("source failed (%s) but the workflow returned (%v, %v)", p.Src, verdict, errs)
				}
			case faulty:
				if verdict != refFV || (err == nil) != (refFErr == nil) {
					v.Violation = fmt.Sprintf("source failing as %s: parallel (%v, %v), sequential (%v, %v)", p.Src, verdict, err, refFV, refFErr)
				}
			default:
				switch {
				case len(run.Torn) > 0:
					v.Violation = fmt.Sprintf("a runner was handed bytes that are not a fresh consecutive stream sample: %v", run.Torn)
				case wrongSize(run, w.N) != 0:
					v.Violation = fmt.Sprintf("a runner was handed a sample of %d bytes, the workflow's samples have %d", wrongSize(run, w.N), w.N)
				case verdict != ref.Verdict:
					v.Violation = fmt.Sprintf("parallel verdict (%v, %s) differs from sequential (%v, %s)", verdict, errs, ref.Verdict, ref.Err)
				case !verdict && item != ref.Item:
					v.Violation = fmt.Sprintf("parallel error names item %d (%s), sequential names item %d (%s)", item, errs, ref.Item, ref.Err)
				case verdict && err != nil:
					v.Violation = fmt.Sprintf("true verdict with error %s", errs)
				case !verdict && err == nil:
					v.Violation = "false verdict with nil error"
				case missing > 0:
					v.Violation = fmt.Sprintf("%d (sample,item) pairs of the first %d items were never judged", missing, w.Items)
				case p.Pair != "" && (!otherV || otherErr != nil):
					v.Violation = fmt.Sprintf("a concurrent call on another, healthy source returned (%v, %v); alone it returns (true, <nil>)", otherV, otherErr)
				case p.Twice && (verdict2 != ref2.Verdict || (!verdict2 && seam.NamedItem(err2) != ref2.Item)):
					v.Violation = fmt.Sprintf("second call on the same source: parallel (%v, %v), sequential (%v, %s)", verdict2, err2, ref2.Verdict, ref2.Err)
				case p.Twice && src.Pos() != refPos:
					v.Violation = fmt.Sprintf("two parallel calls consumed %d stream bytes, two sequential calls consume %d", src.Pos(), refPos)
				}
			}
			if x.Outcome == vsched.OutLeak && p.Mode != "c09" && !x.LeakFromOnce {
				// goroutines left blocked after the return are forbidden by C09 only
				v.Persistent = true
			}
			return v
		}
		return body, check
	}
	st := explore.Explore(cfg)
	res := e1.FromStats(t, st, time.Since(start))
	res.Extra = map[string]int{"completion_orders": len(orders)}
	return res, st.States
}

func wrongSize(run *seam.Run, n int) int {
	for _, c := range run.CallSeq() {
		if c.Len != n {
			return c.Len
		}
	}
	return 0
}
