package fast

import (
	"time"

	"encoding/json"
	"fmt"
	"os"
	"os/exec"
	"sort"
	"strings"
	"verif/seam"

	"verif/common"
	"verif/e1"
	"verif/wf"
)

// BuildInstrumented instruments /repo/detect (every non-test file) and builds the runner with it.
func BuildInstrumented(ctx *common.Ctx) (*e1.BuildInfo, error) {
	return e1.Build(ctx, "detect", []e1.PkgSpec{{Dir: "/repo/detect"}}, "./cmd/runner", false)
}

func MkTask(check, mode string, w *wf.WF, scenario string, src SrcSpec, W, bound, policy, shards int, out *[]e1.Task) {
	MkTaskPrimed(check, mode, w, scenario, src, W, bound, policy, shards, "", out)
}

// MkTaskPrimed: as MkTask, with another parallel workflow called first in every execution.
func MkTaskPrimed(check, mode string, w *wf.WF, scenario string, src SrcSpec, W, bound, policy, shards int, prime string, out *[]e1.Task) {
	MkTaskX(check, mode, w, scenario, src, W, bound, policy, shards, Params{Prime: prime}, out)
}

// MkTaskX: as MkTask with the extra parameters (Prime, Twice, Repeat) taken from x.
func MkTaskX(check, mode string, w *wf.WF, scenario string, src SrcSpec, W, bound, policy, shards int, x Params, out *[]e1.Task) {
	x.Workflow, x.Scenario, x.Src, x.Mode = w.Name, scenario, src, mode
	p, _ := json.Marshal(x)
	wn := w.Name
	if x.Prime != "" {
		wn += "-after-" + x.Prime
	}
	if x.Twice {
		wn += "-twice"
	}
	if x.Repeat > 0 {
		wn += fmt.Sprintf("-x%d", x.Repeat+1)
	}
	if x.JudgeSeq {
		wn += "(seq)"
	}
	if x.Pair != "" {
		wn += "-beside-" + x.Pair
	}
	name := fmt.Sprintf("%s/%s/W%d/%s/%s/b%d/p%d", mode, wn, W, scenario, src, bound, policy)
	for sh := 0; sh < shards; sh++ {
		*out = append(*out, e1.Task{Check: check, Name: name, Params: p, Bound: bound, Policy: policy, W: W, Shard: sh, NShards: shards, CostAll: true})
	}
}

// Report turns the merged results into violations / evidence. Returns the coverage object.
func Report(ctx *common.Ctx, m *e1.Merged, info *e1.BuildInfo, extra common.Coverage) common.Coverage {
	var samples []interface{}
	perBound := map[string]int{}
	orders := 0
	for _, r := range m.Results {
		perBound[fmt.Sprintf("bound%d", r.Task.Bound)] += r.Execs
		orders += r.Extra["completion_orders"]
		if r.Found != nil {
			key := r.Task.Name
			if i := strings.LastIndex(key, "/b"); i > 0 {
				key = key[:i] // the same violation at another bound/policy is the same finding
			}
			ctx.Report(key, r.Found.Violation, map[string]interface{}{"task": r.Task, "choices": r.Found.Choices, "outcome": r.Found.Outcome,
				"blocked": r.Found.Blocked, "panic": r.Found.PanicVal, "stack": r.Found.Stack, "log_tail": tailLog(r.Found.Log, 80)})
		}
		if len(samples) < 5 && r.Execs > 1 {
			samples = append(samples, map[string]interface{}{"task": r.Task.Name, "shard": r.Task.Shard, "executions": r.Execs, "schedule_choice_vector(prefix)": r.Sample, "outcomes": r.Outcomes})
		}
	}
	for _, e := range m.ToolErrors {
		ctx.Note("tool error (not a violation): %s", e)
	}
	sigs := make([]string, 0, len(m.Signatures))
	for k := range m.Signatures {
		sigs = append(sigs, k)
	}
	sort.Strings(sigs)
	if len(sigs) > 12 {
		sigs = sigs[:12]
	}
	cov := common.Coverage{
		"states":                        max1(len(m.States)),
		"transitions":                   max1(m.Transitions),
		"traces_validated_against_impl": m.Execs,
		"samples":                       samples,
		"evaluations":                   m.Execs,
		"distinct_nontrivial":           len(m.States),
		"rule": "every execution is one complete schedule of the real (instrumented) goroutines; states = distinct scheduler-visible states (thread op counts and pending ops, channel/WaitGroup contents, stub call digest); " +
			"bound = maximal number of non-default scheduling decisions (preemptions and non-default choices at blocking points) under each default policy",
		"executions_per_bound":       perBound,
		"distinct_outcomes":          len(m.Signatures),
		"outcome_signatures":         sigs,
		"outcomes":                   m.Outcomes,
		"distinct_completion_orders": orders,
		"max_points_per_execution":   m.MaxPoints,
		"max_threads":                m.MaxThreads,
		"tasks":                      len(m.Results),
		"caps_hit":                   m.Capped,
		"tool_errors":                m.ToolErrors,
		"states_is_lower_bound":      m.StatesLower,
		"exhaustive":                 len(m.Capped) == 0 && len(m.ToolErrors) == 0,
	}
	if info != nil {
		cov["instrumentation"] = info.Counts
		cov["instrumentation_unsupported"] = info.Unsupport
	}
	for k, v := range extra {
		cov[k] = v
	}
	return cov
}

func max1(n int) int {
	if n < 1 {
		return 1
	}
	return n
}

func tailLog(l []string, n int) []string {
	if len(l) > n {
		return l[len(l)-n:]
	}
	return l
}

// RacePass runs the given sub-command of a -race build of the plain runner; any race report is a violation.
func RacePass(ctx *common.Ctx, bin string, args []string, key string) (ran bool, races int) {
	cmd := exec.Command(bin, args...)
	cmd.Env = append(os.Environ(), "GORACE=halt_on_error=0 exitcode=0")
	out, err := cmd.CombinedOutput()
	s := string(out)
	races = strings.Count(s, "WARNING: DATA RACE")
	if races > 0 {
		i := strings.Index(s, "WARNING: DATA RACE")
		rep := s[i:]
		if len(rep) > 3000 {
			rep = rep[:3000]
		}
		ctx.Report(key+"/data-race", fmt.Sprintf("the race detector reports %d data race(s) in a free-running execution", races), map[string]interface{}{"args": args, "report": rep})
	} else if err != nil {
		ctx.Note("race pass %v ended with %v: %s", args, err, tail(s, 600))
		return false, 0
	}
	return true, races
}

func tail(s string, n int) string {
	if len(s) > n {
		return s[len(s)-n:]
	}
	return s
}

// FreeRunning is the degraded mode used when the package cannot be instrumented (a construct outside
// the modelled set): the workflows run with real goroutines on every scenario x source behaviour a few
// times each; a call that has not returned after a long watchdog is reported as a hang. This is sampling
// of schedules, not exploration: the evidence says exhaustive:false and names the reason.
func FreeRunning(ctx *common.Ctx, mode string, specs []SrcSpec, reason string) common.Coverage {
	seam.InstallStubs()
	defer seam.Restore()
	evals := 0
	sigs := map[string]int{}
	for wi := range wf.All {
		w := &wf.All[wi]
		for _, sc := range Catalogue(w) {
			ref := SeqReference(w, sc)
			for _, sp := range specs {
				for rep := 0; rep < 3; rep++ {
					if ctx.Expired() {
						break
					}
					run := seam.NewRun(sc)
					src := MakeSource(sp, run.Stream(w.S, w.N))
					type outT struct {
						v   bool
						err error
						pv  interface{}
					}
					ch := make(chan outT, 1)
					go func() {
						var o outT
						o.pv = common.Catch(func() { o.v, o.err = w.Fast(src) })
						ch <- o
					}()
					var o outT
					hung := false
					select {
					case o = <-ch:
					case <-time.After(2 * time.Minute):
						hung = true
					}
					evals++
					key := fmt.Sprintf("free/%s/%s/%s", w.Name, sc.Name, sp)
					rep := map[string]interface{}{"workflow": w.Name, "scenario": sc.Name, "source": sp}
					switch {
					case hung:
						ctx.Report(key+"/hang", fmt.Sprintf("%sDetectFast has not returned after 2 minutes (%s, source %s)", w.Name, sc.Name, sp), rep)
					case o.pv != nil:
						ctx.Report(key+"/panic", fmt.Sprintf("%sDetectFast panicked: %v", w.Name, o.pv), rep)
					case mode == "c09":
						if o.v || o.err == nil {
							ctx.Report(key, fmt.Sprintf("source failed (%s) but %sDetectFast returned (%v, %v)", sp, w.Name, o.v, o.err), rep)
						}
					case len(run.Torn) > 0:
						ctx.Report(key+"/torn", fmt.Sprintf("%sDetectFast judged bytes that are not a fresh consecutive stream sample: %v", w.Name, run.Torn), rep)
					case o.v != ref.Verdict || (!o.v && seam.NamedItem(o.err) != ref.Item):
						ctx.Report(key, fmt.Sprintf("%sDetectFast returned (%v, %v), sequential (%v, %s)", w.Name, o.v, o.err, ref.Verdict, ref.Err), rep)
					}
					sigs[fmt.Sprintf("%v/%d", o.v, seam.NamedItem(o.err))]++
					if !hung {
						run.Close()
					}
				}
			}
		}
	}
	return common.Coverage{
		"evaluations":                   evals,
		"distinct_nontrivial":           len(sigs) + 1,
		"states":                        1,
		"transitions":                   evals + 1,
		"traces_validated_against_impl": evals,
		"rule":                          "DEGRADED MODE (" + reason + "): free-running executions with real goroutines, three per (workflow, scenario, source behaviour); schedules are sampled, not enumerated",
		"samples":                       []interface{}{map[string]interface{}{"mode": "free-running", "reason": reason}},
		"exhaustive":                    false,
	}
}
