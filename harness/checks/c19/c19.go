// Package c19: the FFT package computes the discrete Fourier transform and its inverse (E2).
package c19

import (
	"fmt"
	"math"
	"math/cmplx"
	"os"
	"runtime"
	"strings"
	"sync/atomic"

	"github.com/Trisia/randomness/fft"

	"verif/common"
	"verif/enum"
	"verif/refmodel"
)

func norm(x []complex128) float64 {
	s := 0.0
	for _, v := range x {
		s += real(v)*real(v) + imag(v)*imag(v)
	}
	return math.Sqrt(s)
}

func Run(ctx *common.Ctx) int {
	cmp := enum.NewCmp(ctx, 0)
	quick := ctx.Quick()
	exhaustive := true
	var evals int64
	distinct := common.NewCounter()
	var worstRel float64
	report := func(key, what string, rep interface{}) { ctx.Report(key, what, rep) }
	tol := func(N int) float64 { return 64 * 2.220446049250313e-16 * math.Log2(float64(N)) }
	newFFT := func(N int) (fft.FFT, bool) {
		f, err := fft.New(N)
		if err != nil {
			report(fmt.Sprintf("New(%d)/error", N), fmt.Sprintf("fft.New(%d) refused a power of two within range: %v", N, err), map[string]interface{}{"N": N})
			return f, false
		}
		return f, true
	}
	// ---------- basis: every unit impulse and every pure tone ----------
	maxLog := 12
	if !quick {
		maxLog = 14
	}
	for lg := 1; lg <= maxLog; lg++ {
		if ctx.Expired() {
			exhaustive = false
			break
		}
		N := 1 << uint(lg)
		f, ok := newFFT(N)
		if !ok {
			continue
		}
		roots := make([]complex128, N)
		for k := range roots {
			roots[k] = cmplx.Rect(1, -2*math.Pi*float64(k)/float64(N))
		}
		common.ParFor(N, func(j int) {
			// impulse at j -> exp(-2 pi i jk/N)
			x := make([]complex128, N)
			x[j] = 1
			var out []complex128
			if pv := common.Catch(func() { out = f.Transform(x) }); pv != nil {
				report(fmt.Sprintf("Transform/N=%d/panic", N), fmt.Sprintf("Transform panicked on the unit impulse %d of length %d: %v", j, N, pv), map[string]interface{}{"N": N, "impulse": j})
				return
			}
			for k := 0; k < N; k++ {
				if d := cmplx.Abs(out[k] - roots[(j*k)%N]); d > tol(N) {
					report(fmt.Sprintf("Transform/N=%d/impulse", N), fmt.Sprintf("N=%d: transform of the unit impulse at %d has X[%d]=%v, expected %v (error %.3g > %.3g)", N, j, k, out[k], roots[(j*k)%N], d, tol(N)),
						map[string]interface{}{"N": N, "impulse": j, "k": k})
					break
				}
			}
			// tone at frequency j -> N e_j ; then the inverse restores the tone
			t := make([]complex128, N)
			for i := range t {
				t[i] = cmplx.Conj(roots[(j*i)%N])
			}
			orig := append([]complex128{}, t...)
			out = f.Transform(t)
			for k := 0; k < N; k++ {
				want := complex(0, 0)
				if k == j {
					want = complex(float64(N), 0)
				}
				if d := cmplx.Abs(out[k] - want); d > tol(N)*math.Sqrt(float64(N))*2 {
					report(fmt.Sprintf("Transform/N=%d/tone", N), fmt.Sprintf("N=%d: transform of the pure tone %d has X[%d]=%v, expected %v", N, j, k, out[k], want), map[string]interface{}{"N": N, "tone": j, "k": k})
					break
				}
			}
			back := f.Inverse(out)
			for i := range back {
				if d := cmplx.Abs(back[i] - orig[i]); d > tol(N)*math.Sqrt(float64(N))*4 {
					report(fmt.Sprintf("Inverse/N=%d/tone", N), fmt.Sprintf("N=%d: inverse(forward(tone %d))[%d]=%v, expected %v", N, j, i, back[i], orig[i]), map[string]interface{}{"N": N, "tone": j, "i": i})
					break
				}
			}
			atomic.AddInt64(&evals, 3)
		})
		distinct.Add(fmt.Sprint("basis N=", N))
	}
	cmp.Sample(map[string]interface{}{"family": "basis", "N": fmt.Sprintf("2^1..2^%d", maxLog), "cases": "every unit impulse e_j (X[k] = exp(-2 pi i jk/N) for all k), every pure tone (N e_k), inverse of each"})
	// ---------- every +-1 vector for N <= 16 and every vector over {0,1,-1,i} for N <= 8 against the naive DFT ----------
	for _, N := range []int{2, 4, 8, 16} {
		f, ok := newFFT(N)
		if !ok {
			continue
		}
		enum.AllStrings(N, func(bits []bool, v uint64) {
			x := make([]complex128, N)
			for i, b := range bits {
				if b {
					x[i] = 1
				} else {
					x[i] = -1
				}
			}
			want := refmodel.NaiveDFT(x)
			orig := append([]complex128{}, x...)
			got := f.Transform(x)
			for k := range got {
				if d := cmplx.Abs(got[k] - want[k]); d > 1e-12*float64(N) {
					report(fmt.Sprintf("Transform/N=%d/pm1", N), fmt.Sprintf("N=%d: transform of %s has X[%d]=%v, naive DFT gives %v", N, common.BitString(bits), k, got[k], want[k]), map[string]interface{}{"N": N, "bits": common.BitString(bits)})
					break
				}
			}
			back := f.Inverse(got)
			for i := range back {
				if cmplx.Abs(back[i]-orig[i]) > 1e-12*float64(N) {
					report(fmt.Sprintf("Inverse/N=%d/pm1", N), fmt.Sprintf("N=%d: inverse(forward(%s)) differs at %d", N, common.BitString(bits), i), map[string]interface{}{"N": N, "bits": common.BitString(bits)})
					break
				}
			}
			atomic.AddInt64(&evals, 2)
		})
		distinct.Add(fmt.Sprint("pm1 N=", N))
	}
	alphabet := []complex128{0, 1, -1, complex(0, 1)}
	for _, N := range []int{2, 4, 8} {
		f, ok := newFFT(N)
		if !ok {
			continue
		}
		total := 1 << uint(2*N)
		common.ParFor(total, func(v int) {
			x := make([]complex128, N)
			for i := range x {
				x[i] = alphabet[v>>uint(2*i)&3]
			}
			want := refmodel.NaiveDFT(x)
			got := f.Transform(x)
			for k := range got {
				if cmplx.Abs(got[k]-want[k]) > 1e-12*float64(N) {
					report(fmt.Sprintf("Transform/N=%d/alphabet", N), fmt.Sprintf("N=%d: transform of vector code %d over {0,1,-1,i} differs from the naive DFT at %d", N, v, k), map[string]interface{}{"N": N, "code": v})
					break
				}
			}
			atomic.AddInt64(&evals, 1)
		})
		distinct.Add(fmt.Sprint("alphabet N=", N))
	}
	cmp.Sample(map[string]interface{}{"family": "all small vectors", "cases": "every +-1 vector for N in {2,4,8,16}; every vector over {0,1,-1,i} for N in {2,4,8}; against the naive DFT; inverse restores the input"})
	// ---------- large N: fillers plus impulses / tones at selected positions, forward then inverse ----------
	maxBig := 16
	if !quick {
		maxBig = 20
	}
	for lg := maxLog + 1; lg <= maxBig; lg++ {
		if ctx.Expired() {
			exhaustive = false
			break
		}
		N := 1 << uint(lg)
		f, ok := newFFT(N)
		if !ok {
			continue
		}
		fl := enum.Filler(2*N, uint64(lg))
		x := make([]complex128, N)
		for i := range x {
			x[i] = complex(b2f(fl[2*i]), b2f(fl[2*i+1]))
		}
		orig := append([]complex128{}, x...)
		want := refmodel.RecFFT(x)
		got := f.Transform(x)
		nx := norm(orig)
		for k := range got {
			if d := cmplx.Abs(got[k] - want[k]); d > tol(N)*nx {
				report(fmt.Sprintf("Transform/N=%d/filler", N), fmt.Sprintf("N=%d: transform of the filler vector differs from the reference FFT at %d by %.3g (allowed %.3g)", N, k, d, tol(N)*nx), map[string]interface{}{"N": N})
				break
			} else if d/nx > worstRel {
				worstRel = d / nx
			}
		}
		back := f.Inverse(got)
		for i := range back {
			if cmplx.Abs(back[i]-orig[i]) > tol(N)*nx {
				report(fmt.Sprintf("Inverse/N=%d/filler", N), fmt.Sprintf("N=%d: inverse(forward(filler)) differs at %d", N, i), map[string]interface{}{"N": N})
				break
			}
		}
		for _, j := range []int{0, 1, N/2 - 1, N / 2, N - 1} {
			e := make([]complex128, N)
			e[j] = 1
			out := f.Transform(e)
			for _, k := range []int{0, 1, 2, N/2 - 1, N / 2, N - 1, (N / 3) | 1} {
				w := cmplx.Rect(1, -2*math.Pi*float64((j*k)%N)/float64(N))
				if cmplx.Abs(out[k]-w) > tol(N) {
					report(fmt.Sprintf("Transform/N=%d/impulse", N), fmt.Sprintf("N=%d: impulse %d: X[%d]=%v expected %v", N, j, k, out[k], w), map[string]interface{}{"N": N, "impulse": j, "k": k})
				}
			}
			evals++
		}
		evals += 2
		distinct.Add(fmt.Sprint("large N=", N))
	}
	// ---------- other GOMAXPROCS settings: the result must not depend on how work might be split ----------
	prevG := runtime.GOMAXPROCS(0)
	for _, gmp := range []int{1, 3, 5, 6, 7, 12} {
		runtime.GOMAXPROCS(gmp)
		for _, lg := range []int{12, 16, 17} {
			N := 1 << uint(lg)
			f, ok := newFFT(N)
			if !ok {
				continue
			}
			fl := enum.Filler(2*N, uint64(lg)+99)
			x := make([]complex128, N)
			for i := range x {
				x[i] = complex(b2f(fl[2*i]), b2f(fl[2*i+1]))
			}
			want := refmodel.RecFFT(x)
			nx := norm(x)
			got := f.Transform(x)
			for k := range got {
				if d := cmplx.Abs(got[k] - want[k]); d > tol(N)*nx {
					report(fmt.Sprintf("Transform/GOMAXPROCS=%d", gmp), fmt.Sprintf("N=%d with GOMAXPROCS=%d: transform of the filler vector differs from the reference at %d by %.3g", N, gmp, k, d), map[string]interface{}{"N": N, "GOMAXPROCS": gmp})
					break
				}
			}
			evals++
		}
	}
	runtime.GOMAXPROCS(prevG)
	// ---------- constructor: largest power of two <= N; refusals ----------
	maxCons := 1 << 13
	common.ParFor(maxCons-1, func(i int) {
		N := i + 2
		f, err := fft.New(N)
		want := 1
		for want*2 <= N {
			want *= 2
		}
		if err != nil || f.N != want {
			report("New/small", fmt.Sprintf("fft.New(%d) gives length %d (err %v), expected the largest power of two not exceeding it, %d", N, f.N, err, want), map[string]interface{}{"N": N})
		}
		atomic.AddInt64(&evals, 1)
	})
	topLog := 20
	if !quick {
		topLog = 22
	}
	for lg := 14; lg <= topLog; lg++ {
		for _, N := range []int{1<<uint(lg) - 1, 1 << uint(lg), 1<<uint(lg) + 1} {
			f, err := fft.New(N)
			want := 1
			for want*2 <= N {
				want *= 2
			}
			if err != nil || f.N != want {
				report("New/around-power", fmt.Sprintf("fft.New(%d) gives length %d (err %v), expected %d", N, f.N, err, want), map[string]interface{}{"N": N})
			}
			evals++
		}
	}
	for _, N := range []int{-1, 0, 1, 1<<27 + 1, 1 << 28, math.MinInt64} {
		if _, err := fft.New(N); err == nil {
			report("New/refusal", fmt.Sprintf("fft.New(%d) did not return an error", N), map[string]interface{}{"N": N})
		}
		evals++
	}
	if memAvailableGB() >= 12 {
		// the largest admitted length is actually constructed (about 3 GB)
		var f fft.FFT
		var err error
		pv := common.Catch(func() { f, err = fft.New(1 << 27) })
		if pv != nil || err != nil || f.N != 1<<27 {
			report("New/2^27", fmt.Sprintf("fft.New(2^27) gives length %d, err %v, panic %v; 2^27 is within the accepted range", f.N, err, pv), nil)
		} else {
			// spot entries of the tables: roots and bit-reversal permutation
			for _, k := range []int{0, 1, 1 << 25, 1<<26 + 5, 1<<27 - 1} {
				w := cmplx.Rect(1, -2*math.Pi*float64(k)/float64(1<<27))
				if cmplx.Abs(f.E[k]-w) > 1e-12 {
					report("New/2^27-roots", fmt.Sprintf("fft.New(2^27): root table entry %d is %v, expected %v", k, f.E[k], w), nil)
				}
			}
		}
		f = fft.FFT{}
		runtime.GC()
		evals++
		constructed27 = true
	}
	// wrong-length slices are refused (panic), not computed
	for _, N := range []int{2, 8, 1024} {
		f, _ := fft.New(N)
		for _, l := range []int{0, 1, N / 2, N - 1, N + 1, 2 * N} {
			if l == N {
				continue
			}
			for _, which := range []string{"Transform", "Inverse"} {
				x := make([]complex128, l)
				for i := range x {
					x[i] = complex(float64(i+1), 0)
				}
				pv := common.Catch(func() {
					if which == "Transform" {
						f.Transform(x)
					} else {
						f.Inverse(x)
					}
				})
				if pv == nil {
					report(which+"/wrong-length", fmt.Sprintf("%s of a slice of length %d with a transformer of length %d returned numbers instead of refusing", which, l, N), map[string]interface{}{"N": N, "len": l})
				} else if _, isRuntime := pv.(interface{ RuntimeError() }); isRuntime {
					report(which+"/wrong-length-crash", fmt.Sprintf("%s of a slice of length %d with a transformer of length %d crashed with a runtime error (%v) instead of refusing", which, l, N, pv), map[string]interface{}{"N": N, "len": l})
				}
				evals++
			}
		}
	}
	cmp.Sample(map[string]interface{}{"family": "constructor", "cases": fmt.Sprintf("every N in 2..%d, 2^k-1/2^k/2^k+1 for k=14..%d, refusals for -1, 0, 1, 2^27+1, 2^28; wrong-length slices 0,1,N/2,N-1,N+1,2N", maxCons, topLog)})
	cov := common.Coverage{
		"evaluations":         int(evals),
		"distinct_nontrivial": distinct.Len() + maxCons/64,
		"rule": "by linearity the transform is determined by its action on a basis: every unit impulse and every pure tone for each N=2^1..2^" + fmt.Sprint(maxLog) + " is transformed and compared with the closed form (error <= 64 eps log2 N relative to the input norm), " +
			"all +-1 vectors N<=16 and all vectors over {0,1,-1,i} N<=8 against the naive DFT, fillers and selected impulses up to 2^" + fmt.Sprint(maxBig) + ", inverse(forward) = identity on all of them; constructor on every N<=8192 and around every power of two; " +
			"distinct = number of (family, N) classes plus one per 64 constructor arguments",
		"samples":                      cmp.Samples(),
		"exhaustive":                   exhaustive,
		"worst_relative_error_large_N": worstRel,
		"constructed_2^27":             constructed27,
	}
	return ctx.Finish("exploration", cov, []string{"oracle: closed forms exp(-2 pi i jk/N), naive DFT, recursive reference FFT", "complex inputs beyond the enumerated families are covered by linearity only up to floating-point accumulation"})
}

var constructed27 bool

func memAvailableGB() int {
	b, err := os.ReadFile("/proc/meminfo")
	if err != nil {
		return 0
	}
	for _, l := range strings.Split(string(b), "\n") {
		if strings.HasPrefix(l, "MemAvailable:") {
			var kb int
			fmt.Sscanf(strings.TrimSpace(strings.TrimPrefix(l, "MemAvailable:")), "%d", &kb)
			return kb / 1024 / 1024
		}
	}
	return 0
}

func b2f(b bool) float64 {
	if b {
		return 1
	}
	return -1
}
