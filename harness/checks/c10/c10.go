// Package c10: workflow verdicts depend on the bytes delivered, not on how Read chunks them.
package c10

import (
	"encoding/json"
	"fmt"
	"sync"
	"sync/atomic"

	"github.com/Trisia/randomness/detect"

	"verif/checks/fast"
	"verif/common"
	"verif/e1"
	"verif/seam"
	"verif/wf"
)

// history: deviations from "all requested" at given Read call indices.
type history struct {
	Idx  []int    `json:"read_index"`
	Size []string `json:"size"`
	Uni  string   `json:"uniform,omitempty"`
	EOF  bool     `json:"eof_with_last_bytes,omitempty"` // the final Read reports io.EOF together with its bytes
}

func (h history) String() string {
	if h.EOF {
		h.EOF = false
		return h.String() + " +eof-with-last-bytes"
	}
	if h.Uni != "" {
		return "uniform(" + h.Uni + ")"
	}
	s := ""
	for i := range h.Idx {
		s += fmt.Sprintf("%s@read%d ", h.Size[i], h.Idx[i])
	}
	if s == "" {
		return "full"
	}
	return s
}

func sizeOf(code string, req int) int {
	switch code {
	case "1":
		return 1
	case "half":
		return (req + 1) / 2
	case "minus1":
		return req - 1
	case "alt":
		return 1
	}
	var n int
	fmt.Sscanf(code, "%d", &n)
	if n <= 0 || n > req {
		n = req
	}
	return n
}

func (h history) source(data []byte) *seam.Source {
	src := &seam.Source{Data: data, EOFWithData: h.EOF}
	src.Policy = func(call, req, rem int) (seam.Answer, bool) {
		if h.Uni != "" {
			if h.Uni == "alt" {
				if call%2 == 0 {
					return seam.Answer{N: 1}, true
				}
				return seam.Answer{}, false
			}
			return seam.Answer{N: sizeOf(h.Uni, req)}, true
		}
		for i, ix := range h.Idx {
			if ix == call {
				return seam.Answer{N: sizeOf(h.Size[i], req)}, true
			}
		}
		return seam.Answer{}, false
	}
	return src
}

func Run(ctx *common.Ctx) int {
	quick := ctx.Quick()
	var evals int64
	sigs := common.NewCounter()
	var samples []interface{}
	var smu sync.Mutex
	addSample := func(v interface{}) {
		smu.Lock()
		if len(samples) < 8 {
			samples = append(samples, v)
		}
		smu.Unlock()
	}
	seam.InstallStubs()
	sizes := []string{"1", "half", "minus1"}
	// ---------- part A: sequential workflows ----------
	type seqJob struct {
		w  *wf.WF
		sc *seam.Scenario
		h  history
	}
	var jobs []seqJob
	for wi := range wf.All {
		w := &wf.All[wi]
		cat := fast.Catalogue(w)
		scs := []*seam.Scenario{cat[0], cat[1], cat[4]}
		for si, sc := range scs {
			nreads := w.S + 2
			for i := 0; i < nreads; i++ {
				for _, a := range sizes {
					jobs = append(jobs, seqJob{w, sc, history{Idx: []int{i}, Size: []string{a}}})
					for j := i + 1; j < nreads+1; j++ {
						if w.Name == "Factory" && (quick || si > 0) && !(j == i+1 || j == nreads) {
							continue
						}
						if quick && w.Name == "PowerOn" && si > 0 && !(j == i+1 || j == nreads) {
							continue
						}
						for _, b := range sizes {
							jobs = append(jobs, seqJob{w, sc, history{Idx: []int{i, j}, Size: []string{a, b}}})
						}
					}
				}
			}
			unis := []string{"7", "997", "2499", fmt.Sprint(w.N - 1), fmt.Sprint(w.N + 1), "alt", "half"}
			if w.Name == "Period" {
				unis = append(unis, "1", "2", "3")
			}
			if si == 0 && (w.Name == "PowerOn" || (w.Name == "Factory" && !quick)) {
				// every byte its own Read: 125000 Read calls per sample
				unis = append(unis, "1", "2")
			}
			for _, u := range unis {
				jobs = append(jobs, seqJob{w, sc, history{Uni: u}})
			}
			// the stream ends exactly after the last sample and the Read delivering its last bytes also reports io.EOF
			jobs = append(jobs, seqJob{w, sc, history{EOF: true}}, seqJob{w, sc, history{Uni: "half", EOF: true}}, seqJob{w, sc, history{Uni: "997", EOF: true}},
				seqJob{w, sc, history{Idx: []int{w.S - 1}, Size: []string{"minus1"}, EOF: true}})
		}
	}
	refs := map[string]fast.Ref{}
	for wi := range wf.All {
		w := &wf.All[wi]
		for _, sc := range fast.Catalogue(w) {
			refs[w.Name+"/"+sc.Name] = fast.SeqReference(w, sc)
		}
	}
	pools := map[string]*sync.Pool{}
	for wi := range wf.All {
		w := &wf.All[wi]
		pools[w.Name] = &sync.Pool{New: func() interface{} {
			r := seam.NewRun(seam.NewScenario("tmpl", 1))
			b := r.Stream(w.S, w.N)
			r.Close()
			return b
		}}
	}
	capped := false
	common.ParFor(len(jobs), func(i int) {
		if ctx.Expired() {
			capped = true
			return
		}
		j := jobs[i]
		run := seam.NewRun(j.sc)
		defer run.Close()
		base := pools[j.w.Name].Get().([]byte)
		defer pools[j.w.Name].Put(base)
		run.PatchStream(base, j.w.S, j.w.N)
		src := j.h.source(base)
		var v bool
		var err error
		pv := common.Catch(func() { v, err = j.w.Seq(src) })
		atomic.AddInt64(&evals, 1)
		ref := refs[j.w.Name+"/"+j.sc.Name]
		key := fmt.Sprintf("seq/%s/%s/%s", j.w.Name, j.sc.Name, j.h)
		rep := map[string]interface{}{"workflow": j.w.Name, "scenario": j.sc.Name, "history": j.h}
		sigs.Add(fmt.Sprintf("%s/%s/%s", j.w.Name, j.sc.Name, j.h))
		switch {
		case pv != nil:
			ctx.Report(key, fmt.Sprintf("%sDetect panicked: %v", j.w.Name, pv), rep)
		case len(run.Torn) > 0:
			ctx.Report(key, fmt.Sprintf("%sDetect judged bytes that are not a fresh consecutive stream sample under read history %s: %v", j.w.Name, j.h, run.Torn), rep)
		case v != ref.Verdict || (!v && seam.NamedItem(err) != ref.Item):
			ctx.Report(key, fmt.Sprintf("%sDetect returned (%v, %v) under read history %s, (%v, %s) with full reads", j.w.Name, v, err, j.h, ref.Verdict, ref.Err), rep)
		case src.Pos() != j.w.S*j.w.N:
			ctx.Report(key, fmt.Sprintf("%sDetect consumed %d bytes under read history %s, expected %d", j.w.Name, src.Pos(), j.h, j.w.S*j.w.N), rep)
		}
		if i%7919 == 0 {
			addSample(map[string]interface{}{"workflow": j.w.Name + "Detect", "scenario": j.sc.Name, "read_history": j.h.String(), "reads": src.Calls(), "returned": fmt.Sprint(v, " ", err)})
		}
	})
	seqRuns := evals
	seam.Restore()
	// ---------- SingleDetect: all compositions of 16 (thorough: 20) bytes ----------
	single := func(nb int, all bool) {
		data := fillerPassing(nb)
		refV, refErr := detect.SingleDetect(&seam.Source{Data: append([]byte{}, data...)}, nb)
		if nb <= 24 && !refV {
			ctx.Note("SingleDetect reference data of %d bytes does not pass; chunking sensitivity is reduced", nb)
		}
		run := func(cuts []int, label string) {
			// cuts: sizes of the successive reads
			k := 0
			src := &seam.Source{Data: append(append([]byte{}, data...), 0xAA, 0x55, 0xAA)}
			src.Policy = func(call, req, rem int) (seam.Answer, bool) {
				if k < len(cuts) {
					n := cuts[k]
					k++
					return seam.Answer{N: n}, true
				}
				return seam.Answer{}, false
			}
			var v bool
			var err error
			pv := common.Catch(func() { v, err = detect.SingleDetect(src, nb) })
			atomic.AddInt64(&evals, 1)
			key := fmt.Sprintf("single/%d/%s", nb, label)
			if pv != nil || v != refV || (err == nil) != (refErr == nil) || src.Pos() != nb {
				ctx.Report(key, fmt.Sprintf("SingleDetect(%d) with read sizes %s returned (%v, %v) consuming %d bytes; with one full read (%v, %v) consuming %d (panic=%v)", nb, label, v, err, src.Pos(), refV, refErr, nb, pv), map[string]interface{}{"bytes": nb, "read_sizes": cuts})
			}
		}
		if all {
			n := 1 << uint(nb-1)
			common.ParFor(n, func(mask int) {
				var cuts []int
				cur := 1
				for b := 0; b < nb-1; b++ {
					if mask>>uint(b)&1 == 1 {
						cuts = append(cuts, cur)
						cur = 1
					} else {
						cur++
					}
				}
				cuts = append(cuts, cur)
				run(cuts, fmt.Sprintf("composition#%d", mask))
			})
			sigs.Add(fmt.Sprintf("single%d/all-compositions", nb))
			addSample(map[string]interface{}{"function": "SingleDetect", "bytes": nb, "read_histories": fmt.Sprintf("all %d compositions of %d", n, nb)})
			return
		}
		// <= 2 cut points
		for a := 1; a < nb; a++ {
			run([]int{a}, fmt.Sprintf("%d+rest", a))
			for b := 1; a+b < nb; b += 1 + nb/64 {
				run([]int{a, b}, fmt.Sprintf("%d+%d+rest", a, b))
			}
		}
		for _, u := range []int{1, 2, 3, 7, 13} {
			var cuts []int
			for t := 0; t < nb; t += u {
				cuts = append(cuts, u)
			}
			run(cuts, fmt.Sprintf("uniform%d", u))
		}
		sigs.Add(fmt.Sprintf("single%d/two-cuts", nb))
	}
	single(16, true)
	if !quick {
		single(20, true)
	}
	single(40, false)
	single(1280, false)
	if !quick {
		single(4096, false)
	}
	ctx.Printf("C10: sequential part: %d runs (%d workflow histories, %d single-shot)\n", evals, seqRuns, evals-seqRuns)

	// ---------- part B: parallel workflows under the controlled scheduler ----------
	info, err := fast.BuildInstrumented(ctx)
	if err != nil {
		ctx.Note("the parallel workflows cannot be instrumented (%v); falling back to free-running executions", err)
		cov := fast.FreeRunning(ctx, "c10", []fast.SrcSpec{{Kind: "uniform", Index2: -1, Size: "half"}, {Kind: "uniform", Index2: -1, Size: "997"}, {Kind: "short", Index: 3, Index2: -1, Size: "1"}}, firstLine(err.Error()))
		cov["evaluations"] = cov["evaluations"].(int) + int(evals)
		cov["distinct_nontrivial"] = sigs.Len() + 2
		cov["sequential_part"] = "complete as in normal mode"
		return ctx.Finish("fault_enumeration", cov, []string{"degraded mode for the parallel workflows: schedules sampled by the Go runtime"})
	}
	var tasks []e1.Task
	for wi := range wf.All {
		w := &wf.All[wi]
		cat := fast.Catalogue(w)
		for _, W := range []int{1, 2} {
			// bound 0 under three policies: one and two short reads at every index, uniform policies
			for _, pol := range []int{0, 1, 2, 3} {
				var specs []fast.SrcSpec
				for i := 0; i < w.S+2; i++ {
					for _, a := range sizes {
						specs = append(specs, fast.SrcSpec{Kind: "short", Index: i, Index2: -1, Size: a})
						specs = append(specs, fast.SrcSpec{Kind: "short", Index: i, Index2: i + 1, Size: a})
						if !quick {
							specs = append(specs, fast.SrcSpec{Kind: "short", Index: i, Index2: (i + w.S/2) % (w.S + 2), Size: a})
						}
					}
				}
				unis := []string{"997", "2499", fmt.Sprint(w.N - 1), "half"}
				if w.Name == "Period" {
					unis = append(unis, "7", "1")
				}
				for _, u := range unis {
					specs = append(specs, fast.SrcSpec{Kind: "uniform", Index2: -1, Size: u})
				}
				// the stream ends exactly after the last sample; its final Read reports io.EOF together with the bytes
				specs = append(specs, fast.SrcSpec{Kind: "eofwith", Index2: -1}, fast.SrcSpec{Kind: "eofwith", Index2: -1, Size: "half"})
				for _, scn := range []string{cat[0].Name, cat[1].Name} {
					if quick && scn != cat[0].Name && pol != 0 {
						continue
					}
					chunks := 1
					if w.Name == "Factory" {
						chunks = 4
					}
					for c := 0; c < chunks; c++ {
						lo, hi := c*len(specs)/chunks, (c+1)*len(specs)/chunks
						tasks = append(tasks, mk(w, scn, W, 0, pol, specs[lo:hi], fmt.Sprintf("part%d", c)))
					}
				}
			}
			// bound 1: one short read x one scheduling deviation
			if W == 2 {
				idxs := []int{}
				for i := 0; i < w.S; i++ {
					if w.Name == "Period" || !quick || i < 3 || i >= w.S-2 || i == w.S/2 {
						idxs = append(idxs, i)
					}
				}
				if quick && w.Name == "Factory" {
					idxs = []int{0, 1, 49}
				}
				for _, i := range idxs {
					var sp []fast.SrcSpec
					for _, a := range sizes {
						if quick && a == "minus1" && w.Name != "Period" {
							continue
						}
						sp = append(sp, fast.SrcSpec{Kind: "short", Index: i, Index2: -1, Size: a})
					}
					tasks = append(tasks, mk(w, cat[0].Name, W, 1, 0, sp, fmt.Sprintf("idx%d", i)))
					if w.Name == "Period" || !quick {
						tasks = append(tasks, mk(w, cat[0].Name, W, 1, 3, sp, fmt.Sprintf("idx%d", i)))
					}
				}
				if !quick && w.Name == "Period" {
					for _, i := range []int{0, 1, 10, 19} {
						t := mk(w, cat[0].Name, W, 2, 0, []fast.SrcSpec{{Kind: "short", Index: i, Index2: -1, Size: "half"}}, fmt.Sprintf("idx%d", i))
						for sh := 0; sh < 8; sh++ {
							t2 := t
							t2.Shard, t2.NShards = sh, 8
							tasks = append(tasks, t2)
						}
					}
				}
			}
		}
	}
	ctx.Printf("C10: %d exploration tasks\n", len(tasks))
	m := e1.RunTasks(ctx, info.Bin, tasks, 0, false)
	cov := fast.Report(ctx, m, info, nil)
	for _, r := range m.Results {
		for k := range r.Signatures {
			sigs.Add("fast/" + k)
		}
	}
	for _, s := range cov["samples"].([]interface{}) {
		addSample(s)
	}
	cov["samples"] = samples
	cov["evaluations"] = int(evals) + m.Execs
	cov["distinct_nontrivial"] = sigs.Len()
	cov["sequential_history_runs"] = int(evals)
	cov["parallel_schedules"] = m.Execs
	cov["rule"] = "read-size history = per-Read answer from {all requested, 1, ceil(req/2), req-1}, and exact-length streams whose final Read reports io.EOF together with its bytes; sequential workflows: every history with <= 2 deviations at every Read index (Factory/PowerOn: adjacent and far pairs in quick) plus uniform policies, on three verdict-sensitive marker-stream scenarios; " +
		"SingleDetect: all 2^15 compositions of 16 bytes (thorough also all 2^19 of 20), <= 2 cut points for 40/1280(/4096) bytes; parallel workflows under the controlled scheduler: <= 2 short reads at every Read index and uniform policies at deviation bound 0 under four default policies, one short read x one scheduling deviation (W=2) at bound 1; " +
		"distinct = distinct (workflow, scenario, history) and distinct schedule outcome signatures"
	cov["exhaustive"] = cov["exhaustive"].(bool) && !capped
	return ctx.Finish("fault_enumeration", cov, []string{
		"stale or zero buffer contents are observed directly: the stub runners decode the sample index from six markers and compare the filler bytes with the stream's",
		"the sequential full-read run of the same function is the reference for verdict and named item",
	})
}

func mk(w *wf.WF, scenario string, W, bound, pol int, specs []fast.SrcSpec, tag string) e1.Task {
	p, _ := json.Marshal(fast.Params{Workflow: w.Name, Scenario: scenario, Srcs: specs, Mode: "c10"})
	return e1.Task{Check: "C10", Name: fmt.Sprintf("c10/%s/W%d/%s/%s/b%d/p%d", w.Name, W, scenario, tag, bound, pol), Params: p, Bound: bound, Policy: pol, W: W, NShards: 1, CostAll: true}
}

// fillerPassing returns nb bytes whose poker statistic passes comfortably for the m the length selects
// (a de Bruijn-like byte walk: every 2-, 4- and 8-bit pattern about equally often).
func fillerPassing(nb int) []byte {
	out := make([]byte, nb)
	x := uint32(0x2545F491)
	for i := range out {
		if nb < 40 {
			// m = 2: cycle through bytes whose four 2-bit patterns are all different
			out[i] = [...]byte{0x1B, 0xE4, 0x27, 0xD8, 0x4E, 0xB1, 0x72, 0x8D}[i%8]
			continue
		}
		if nb < 1280 {
			// m = 4: nibble pairs walking all 16 values
			out[i] = byte((i*2)%16)<<4 | byte((i*2+1)%16)
			_ = x
			continue
		}
		out[i] = byte(i*167 + 13) // m = 8: 167 is odd, so all 256 values occur equally often
	}
	return out
}

func firstLine(s string) string {
	for i, c := range s {
		if c == '\n' {
			return s[:i]
		}
	}
	return s
}
