// Package c17: tests respect the symmetries their definitions imply (E2, differential, no expected values).
package c17

import (
	"fmt"
	"math"
	"strings"
	"sync/atomic"

	r "github.com/Trisia/randomness"

	"verif/calls"
	"verif/common"
	"verif/enum"
)

type sym struct {
	c          calls.Call
	complement string // "" none, "same", "q1" (Q -> 1-Q), "swap:<partner>" (result equals partner's on the original)
	reverse    string // "" none, "same", "swap:<partner>"
	rotate     bool
	block      int  // > 0: permuting whole blocks of this length leaves the result unchanged; -1: block length = automatic
	tail       bool // bits after the last whole block are irrelevant
	exact      bool // the transformation does not reorder a floating-point sum: bit-identical
}

func table() []sym {
	var out []sym
	extra := calls.LinearComplexityCalls([]int{4, 5})
	for _, c := range append(calls.All(), extra...) {
		s := sym{c: c}
		n := c.Name
		switch {
		case strings.HasPrefix(n, "MonoBit"):
			s.complement, s.reverse, s.exact = "q1", "same", true
		case strings.HasPrefix(n, "FrequencyWithinBlockProto(m=n)"):
			s.complement = "same"
		case strings.HasPrefix(n, "FrequencyWithinBlockProto(m="):
			fmt.Sscanf(n, "FrequencyWithinBlockProto(m=%d)", &s.block)
			s.complement, s.tail = "same", true
		case strings.HasPrefix(n, "FrequencyWithinBlockTest(auto)"):
			s.complement, s.block, s.tail = "same", -1, true
		case strings.HasPrefix(n, "PokerProto"):
			fmt.Sscanf(n, "PokerProto(m=%d)", &s.block)
			s.complement, s.tail = "same", true
		case strings.HasPrefix(n, "Overlapping"), strings.HasPrefix(n, "ApproximateEntropy"):
			s.complement, s.reverse, s.rotate = "same", "same", true
		case n == "RunsTest":
			s.complement, s.reverse = "same", "same"
		case n == "RunsDistributionTest":
			s.complement, s.reverse = "same", "same"
		case n == "LongestRunOfOnesInABlockProto(ones)":
			s.complement, s.block, s.tail = "swap:LongestRunOfOnesInABlockProto(zeros)", -2, true
		case n == "LongestRunOfOnesInABlockProto(zeros)":
			s.complement, s.block, s.tail = "swap:LongestRunOfOnesInABlockProto(ones)", -2, true
		case strings.HasPrefix(n, "BinaryDerivative"):
			s.complement, s.reverse, s.exact = "same", "same", true
		case strings.HasPrefix(n, "Autocorrelation"):
			s.complement, s.reverse, s.exact = "same", "same", true
		case n == "CumulativeTest(forward)":
			s.complement, s.reverse, s.exact = "same", "swap:CumulativeTest(backward)", true
		case n == "CumulativeTest(backward)":
			s.complement, s.reverse, s.exact = "same", "swap:CumulativeTest(forward)", true
		case strings.HasPrefix(n, "MatrixRank"):
			s.block, s.tail = 1024, true
		case strings.HasPrefix(n, "LinearComplexity"):
			fmt.Sscanf(n, "LinearComplexityProto(m=%d)", &s.block)
			s.tail = true
		case n == "MaurerUniversalTest":
			s.complement = "same"
		}
		out = append(out, s)
	}
	return out
}

func autoM(n int) int {
	switch {
	case n >= 100000000:
		return 1000000
	case n >= 1000000:
		return 10000
	case n >= 10000:
		return 1000
	case n >= 1000:
		return 100
	}
	return 10
}

func longestM(n int) int {
	switch {
	case n >= 750000:
		return 10000
	case n >= 6272:
		return 128
	}
	return 8
}

type st struct {
	ctx      *common.Ctx
	tab      []sym
	byName   map[string]int
	evals    int64
	distinct *enum.DistinctSet
	perKind  *common.Counter
}

func (s *st) eval(i int, bits []bool) ([]float64, bool) {
	var v []float64
	if pv := common.Catch(func() { v = s.tab[i].c.Impl(bits) }); pv != nil {
		return nil, false
	}
	return v, true
}

func (s *st) compare(kind string, i int, a, b []float64, exact bool, desc func() interface{}) {
	s.compareX(kind, i, a, b, exact, nil, desc)
}

// compareX: x, if given, is the original sequence, used to obtain the call's conditioning slack
// (an ill-conditioned statistic evaluated in another summation order may legitimately move the value).
func (s *st) compareX(kind string, i int, a, b []float64, exact bool, x []bool, desc func() interface{}) {
	atomic.AddInt64(&s.evals, 1)
	name := s.tab[i].c.Name
	var slack []float64
	for k := range a {
		if k < len(b) {
			d := math.Abs(a[k] - b[k])
			bad := d > 1e-9
			if exact {
				bad = math.Float64bits(a[k]) != math.Float64bits(b[k])
			}
			if math.IsNaN(a[k]) && math.IsNaN(b[k]) {
				bad = false
			}
			if bad && !exact && x != nil && s.tab[i].c.Slack != nil {
				if slack == nil {
					slack = s.tab[i].c.Slack(x)
				}
				if d <= 1e-9+2*slack[k] {
					bad = false
				}
			}
			if bad {
				s.ctx.Report(name+"/"+kind, fmt.Sprintf("%s is not invariant under %s: %v on x, %v on the transformed sequence (after the mapping the property states)", name, kind, a, b), desc())
				return
			}
		}
	}
	if len(a) > 0 && a[0] > 0 && a[0] < 1 {
		s.distinct.Add(math.Float64bits(a[0]) ^ uint64(i)<<54)
	}
}

// blockLen returns the block length of entry i at length n (0 = none).
func (s *st) blockLen(i, n int) int {
	switch b := s.tab[i].block; {
	case b == -1:
		return autoM(n)
	case b == -2:
		return longestM(n)
	default:
		return b
	}
}

// one applies every transformation family to x. rotations / perms are the amounts and permutations to use.
func (s *st) one(x []bool, allRot bool, desc func(extra string) func() interface{}) {
	n := len(x)
	comp := make([]bool, n)
	rev := make([]bool, n)
	for i, b := range x {
		comp[i] = !b
		rev[n-1-i] = b
	}
	base := make([][]float64, len(s.tab))
	ok := make([]bool, len(s.tab))
	for i := range s.tab {
		if n >= s.tab[i].c.Min {
			base[i], ok[i] = s.eval(i, x)
		}
	}
	for i := range s.tab {
		if !ok[i] {
			continue
		}
		t := &s.tab[i]
		// complement
		if t.complement != "" {
			if got, good := s.eval(i, comp); good {
				want := base[i]
				switch {
				case t.complement == "q1":
					want = []float64{base[i][0], 1 - base[i][1]}
					// 1-Q is a rounding away from erfc(-V)/2: P bit-for-bit, Q to 1e-15
					if math.Abs(got[0]-want[0]) > 0 || math.Abs(got[1]-want[1]) > 1e-15 {
						s.compare("complement (Q -> 1-Q)", i, want, got, false, desc("complement"))
					} else {
						atomic.AddInt64(&s.evals, 1)
					}
					goto rev
				case strings.HasPrefix(t.complement, "swap:"):
					j := s.byName[t.complement[5:]]
					if !ok[j] {
						goto rev
					}
					want = base[j]
				}
				s.compareX("complement", i, want, got, t.exact || strings.HasPrefix(t.complement, "swap:"), x, desc("complement"))
			}
		}
	rev:
		if t.reverse != "" {
			if got, good := s.eval(i, rev); good {
				want := base[i]
				if strings.HasPrefix(t.reverse, "swap:") {
					j := s.byName[t.reverse[5:]]
					if ok[j] {
						s.compare("reversal", i, base[j], got, true, desc("reversal"))
					}
				} else {
					s.compareX("reversal", i, want, got, t.exact, x, desc("reversal"))
				}
			}
		}
		if t.rotate {
			amounts := []int{1, 7, 8, n - 1}
			if allRot {
				amounts = amounts[:0]
				for a := 1; a < n; a++ {
					amounts = append(amounts, a)
				}
			}
			for _, a := range amounts {
				a %= n
				if a == 0 {
					continue
				}
				rot := append(append([]bool{}, x[a:]...), x[:a]...)
				if got, good := s.eval(i, rot); good {
					s.compareX("rotation", i, base[i], got, false, x, desc(fmt.Sprintf("rotation by %d", a)))
				}
			}
		}
		if m := s.blockLen(i, n); m > 0 && n/m >= 1 {
			N := n / m
			// block permutations: every permutation for <= 4 blocks, adjacent transpositions (and the far one) otherwise
			perms := permutations(N)
			for _, p := range perms {
				y := make([]bool, 0, n)
				for _, bi := range p {
					y = append(y, x[bi*m:(bi+1)*m]...)
				}
				y = append(y, x[N*m:]...)
				if got, good := s.eval(i, y); good {
					s.compare("block permutation", i, base[i], got, false, desc(fmt.Sprintf("blocks of %d bits permuted %v", m, abbreviate(p))))
				}
			}
			if t.tail && n > N*m {
				tl := n - N*m
				variants := 1 << uint(tl)
				if tl > 4 {
					variants = 4
				}
				for v := 0; v < variants; v++ {
					y := append([]bool{}, x...)
					for k := 0; k < tl; k++ {
						switch {
						case tl <= 4:
							y[N*m+k] = v>>uint(k)&1 == 1
						case v == 0:
							y[N*m+k] = false
						case v == 1:
							y[N*m+k] = true
						case v == 2:
							y[N*m+k] = k%2 == 0
						default:
							y[N*m+k] = !x[N*m+k]
						}
					}
					if got, good := s.eval(i, y); good {
						s.compare("tail content", i, base[i], got, true, desc(fmt.Sprintf("the %d bits after the last whole block replaced (variant %d)", tl, v)))
					}
				}
			}
		}
	}
}

func abbreviate(p []int) []int {
	if len(p) > 8 {
		return p[:8]
	}
	return p
}

func permutations(N int) [][]int {
	id := make([]int, N)
	for i := range id {
		id[i] = i
	}
	if N <= 1 {
		return nil
	}
	var out [][]int
	if N <= 4 {
		var rec func(k int)
		cur := append([]int{}, id...)
		rec = func(k int) {
			if k == N {
				same := true
				for i := range cur {
					if cur[i] != i {
						same = false
					}
				}
				if !same {
					out = append(out, append([]int{}, cur...))
				}
				return
			}
			for i := k; i < N; i++ {
				cur[k], cur[i] = cur[i], cur[k]
				rec(k + 1)
				cur[k], cur[i] = cur[i], cur[k]
			}
		}
		rec(0)
		return out
	}
	sw := func(a, b int) {
		p := append([]int{}, id...)
		p[a], p[b] = p[b], p[a]
		out = append(out, p)
	}
	if N <= 12 {
		for a := 0; a+1 < N; a++ {
			sw(a, a+1)
		}
	} else {
		sw(0, 1)
		sw(N/2, N/2+1)
		sw(N-2, N-1)
	}
	sw(0, N-1)
	return out
}

func Run(ctx *common.Ctx) int {
	quick := ctx.Quick()
	s := &st{ctx: ctx, tab: table(), byName: map[string]int{}, distinct: enum.NewDistinctSet(), perKind: common.NewCounter()}
	for i, t := range s.tab {
		s.byName[t.c.Name] = i
	}
	exhaustive := true
	// S1: every bit string of the small lengths x every transformation of each family
	lens := []int{16, 17}
	if !quick {
		lens = []int{16, 17, 18, 19, 20}
	}
	for _, n := range lens {
		if ctx.Expired() {
			exhaustive = false
			break
		}
		enum.AllStrings(n, func(bits []bool, v uint64) {
			if quick && n == 17 && v%2 == 1 {
				return
			}
			s.one(bits, true, func(extra string) func() interface{} {
				return func() interface{} {
					return map[string]interface{}{"n": n, "bits": common.BitString(bits), "transformation": extra}
				}
			})
		})
	}
	s1 := s.evals
	// S2: longer inputs
	big := []int{128, 1024, 2048, 8974, 20000}
	if !quick {
		big = append(big, 1000000)
	}
	for _, n := range big {
		if ctx.Expired() {
			exhaustive = false
			break
		}
		var inputs []struct {
			name string
			bits []bool
		}
		add := func(name string, b []bool) {
			inputs = append(inputs, struct {
				name string
				bits []bool
			}{name, b})
		}
		nf := 6
		if n >= 1000000 {
			nf = 2
		}
		for k := 0; k < nf; k++ {
			add(fmt.Sprintf("filler seed %d", ctx.Seed+int64(k)), enum.Filler(n, uint64(ctx.Seed)+uint64(k)))
		}
		if n < 1000000 {
			for _, p := range []string{"0110", "0001011", "11101000", "01"} {
				b := enum.Repeat(common.ParseBits(p), n)
				b[n/3] = !b[n/3]
				b[n-2] = !b[n-2]
				add("pattern "+p+" with two flips", b)
			}
			bias := enum.Filler(n, uint64(ctx.Seed)+40)
			for i := range bias {
				if i%3 == 0 {
					bias[i] = true
				}
			}
			add("biased filler", bias)
		}
		common.ParFor(len(inputs), func(i int) {
			in := inputs[i]
			s.one(in.bits, false, func(extra string) func() interface{} {
				return func() interface{} {
					return map[string]interface{}{"n": n, "sequence": in.name, "transformation": extra}
				}
			})
		})
	}
	// ---------- byte-oriented entry points and registry runners under the same transformations ----------
	byteEvals := s.byteLevel(ctx)
	cov := common.Coverage{
		"evaluations":         int(s.evals),
		"distinct_nontrivial": s.distinct.Count(),
		"rule": "S1: every bit string of the listed lengths x {complement, reversal, every rotation amount 1..n-1, every permutation of <=4 whole blocks / adjacent and far transpositions for more, every content of the discarded tail (<=4 bits)} for each call whose definition implies the symmetry; S2: fillers, periodic patterns with flips and a biased filler at n in {128,1024,2048,8974,20000(,10^6)} with rotation amounts {1,7,8,n-1} and block transpositions; " +
			"oracle: f(x) against f(Tx) mapped as the property states (monobit Q -> 1-Q, longest run ones <-> zeros, cumulative sums forward <-> backward); 1e-9 where a sum is reordered, bit-identical otherwise; distinct = distinct (call, P(x)) pairs with 0<P<1",
		"samples": []interface{}{
			map[string]interface{}{"family": "S1", "lengths": lens, "comparisons": s1, "example": "x=0110100110010110: ApproximateEntropyProto(m=2)(x) = (rotate x by 5), PokerProto(m=4): blocks 2,0,3,1"},
			map[string]interface{}{"family": "S2", "lengths": big, "comparisons": s.evals - s1 - byteEvals},
			map[string]interface{}{"family": "byte level", "comparisons": byteEvals, "inputs": "every 1- and 2-byte string, fillers of 3..40, 100, 125, 128, 1121, 2500 bytes", "calls": "MonoBitFrequencyTestBytes, PokerTestBytes(m=4,8), the fifteen registry runners"},
		},
		"calls":      len(s.tab),
		"exhaustive": exhaustive,
	}
	return ctx.Finish("exploration", cov, []string{"differential oracle only: no expected values are used", "rank and linear complexity are excluded from complement/reversal, as the property states"})
}

func rev8(b byte) byte {
	var r byte
	for i := 0; i < 8; i++ {
		if b>>uint(i)&1 == 1 {
			r |= 1 << uint(7-i)
		}
	}
	return r
}

// byteLevel checks complement / reversal / byte permutation on the byte-oriented entry points and runners.
func (s *st) byteLevel(ctx *common.Ctx) int64 {
	var n int64
	near := func(a, b, tol float64) bool {
		return math.Abs(a-b) <= tol || (math.IsNaN(a) && math.IsNaN(b))
	}
	check := func(data []byte, desc func() interface{}) {
		L := len(data)
		comp := make([]byte, L)
		rev := make([]byte, L)
		for i, b := range data {
			comp[i] = ^b
			rev[L-1-i] = rev8(b)
		}
		rot := append(append([]byte{}, data[L/3:]...), data[:L/3]...) // a permutation of whole bytes
		call := func(f func() (float64, float64)) (p, q float64, ok bool) {
			ok = common.Catch(func() { p, q = f() }) == nil
			return
		}
		rep := func(name, kind string, a, b []float64) {
			s.ctx.Report(name+"/"+kind, fmt.Sprintf("%s is not invariant under %s: %v on x, %v on the transformed bytes (after the mapping the property states)", name, kind, a, b), desc())
		}
		atomic.AddInt64(&n, 1)
		// monobit
		if p, q, ok := call(func() (float64, float64) { return r.MonoBitFrequencyTestBytes(data) }); ok {
			if pc, qc, ok2 := call(func() (float64, float64) { return r.MonoBitFrequencyTestBytes(comp) }); ok2 && (!near(p, pc, 0) || !near(1-q, qc, 1e-15)) {
				rep("MonoBitFrequencyTestBytes", "complement (Q -> 1-Q)", []float64{p, 1 - q}, []float64{pc, qc})
			}
			if pr, qr, ok2 := call(func() (float64, float64) { return r.MonoBitFrequencyTestBytes(rev) }); ok2 && (!near(p, pr, 0) || !near(q, qr, 0)) {
				rep("MonoBitFrequencyTestBytes", "reversal", []float64{p, q}, []float64{pr, qr})
			}
		}
		for _, m := range []int{4, 8} {
			m := m
			if p, q, ok := call(func() (float64, float64) { return r.PokerTestBytes(data, m) }); ok {
				if pc, qc, ok2 := call(func() (float64, float64) { return r.PokerTestBytes(comp, m) }); ok2 && (!near(p, pc, 1e-9) || !near(q, qc, 1e-9)) {
					rep(fmt.Sprintf("PokerTestBytes(m=%d)", m), "complement", []float64{p, q}, []float64{pc, qc})
				}
				if pp, qp, ok2 := call(func() (float64, float64) { return r.PokerTestBytes(rot, m) }); ok2 && (!near(p, pp, 1e-9) || !near(q, qp, 1e-9)) {
					rep(fmt.Sprintf("PokerTestBytes(m=%d)", m), "block permutation", []float64{p, q}, []float64{pp, qp})
				}
			}
		}
		if L < 128 {
			return
		}
		// registry runners
		run := func(i int, d []byte) (res *r.TestResult) {
			if common.Catch(func() { res = r.TestMethodArr[i].Runner(d) }) != nil {
				return nil
			}
			return res
		}
		for i := 0; i < 15 && i < len(r.TestMethodArr); i++ {
			if (i == 13 && L < 1121) || i == 9 || i == 12 {
				continue
			}
			x := run(i, data)
			c := run(i, comp)
			if x == nil || c == nil {
				continue
			}
			name := fmt.Sprintf("runner %d", i)
			switch i {
			case 0:
				if !near(x.P, c.P, 0) || !near(1-x.Q, c.Q, 1e-15) {
					rep(name, "complement (Q -> 1-Q)", []float64{x.P, 1 - x.Q}, []float64{c.P, c.Q})
				}
			case 6:
				if zp, zq, ok := call(func() (float64, float64) { return r.LongestRunOfOnesInABlockTestBytes(data, false) }); ok && (!near(zp, c.P, 0) || !near(zq, c.Q, 0)) {
					rep(name, "complement (ones <-> zeros)", []float64{zp, zq}, []float64{c.P, c.Q})
				}
			default:
				if !near(x.P, c.P, 1e-9) || !near(x.Q, c.Q, 1e-9) || !near(x.P2, c.P2, 1e-9) || x.Pass != c.Pass && math.Abs(math.Min(x.P, 1)-0.01) > 1e-9 && (i != 3 || math.Abs(math.Min(x.P, x.P2)-0.01) > 1e-9) {
					rep(name, "complement", []float64{x.P, x.Q, x.P2}, []float64{c.P, c.Q, c.P2})
				}
			}
			// reversal: monobit, overlapping, runs, runs distribution, binary derivative, autocorrelation, approximate entropy; cumulative sums forward <-> backward
			switch i {
			case 0, 3, 4, 5, 7, 8, 11:
				if v := run(i, rev); v != nil && (!near(x.P, v.P, 1e-9) || !near(x.Q, v.Q, 1e-9) || !near(x.P2, v.P2, 1e-9)) {
					rep(name, "reversal", []float64{x.P, x.Q, x.P2}, []float64{v.P, v.Q, v.P2})
				}
			case 10:
				if v := run(i, rev); v != nil {
					if bp, bq, ok := call(func() (float64, float64) { return r.CumulativeTestBytes(data, false) }); ok && (!near(bp, v.P, 0) || !near(bq, v.Q, 0)) {
						rep(name, "reversal (forward <-> backward)", []float64{bp, bq}, []float64{v.P, v.Q})
					}
				}
			}
		}
	}
	for v := 0; v < 65536+256; v++ {
		var data []byte
		if v < 256 {
			data = []byte{byte(v)}
		} else {
			data = []byte{byte((v - 256) >> 8), byte(v - 256)}
		}
		check(data, func() interface{} { return map[string]interface{}{"bytes": fmt.Sprintf("%x", data)} })
	}
	var lens []int
	for l := 3; l <= 40; l++ {
		lens = append(lens, l)
	}
	lens = append(lens, 100, 125, 128, 129, 1121, 2500)
	type job struct{ l, k int }
	var jobs []job
	for _, l := range lens {
		for k := 0; k < 6; k++ {
			jobs = append(jobs, job{l, k})
		}
	}
	common.ParFor(len(jobs), func(i int) {
		j := jobs[i]
		data := enum.FillerBytes(j.l, uint64(ctx.Seed)+uint64(j.l*7+j.k))
		if j.k%3 == 2 {
			for t := range data {
				if t%4 == 0 {
					data[t] |= 0x30
				}
			}
		}
		check(data, func() interface{} {
			return map[string]interface{}{"filler_bytes": j.l, "seed": ctx.Seed + int64(j.l*7+j.k), "biased": j.k%3 == 2}
		})
	})
	atomic.AddInt64(&s.evals, n)
	return n
}
