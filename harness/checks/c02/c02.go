// Package c02: run-based tests return the standard-defined P and Q values (E2).
package c02

import (
	"fmt"
	"sync/atomic"

	r "github.com/Trisia/randomness"

	"verif/calls"
	"verif/common"
	"verif/e2"
	"verif/enum"
	"verif/refmodel"
)

// build a sequence from run lengths, starting with symbol first.
func fromRuns(runs []int, first bool) []bool {
	n := 0
	for _, l := range runs {
		n += l
	}
	out := make([]bool, 0, n)
	cur := first
	for _, l := range runs {
		for i := 0; i < l; i++ {
			out = append(out, cur)
		}
		cur = !cur
	}
	return out
}

var fillerRuns = []int{1, 2, 1, 1, 3, 2, 1, 4, 1, 1, 2, 5, 1, 3, 1, 2, 1, 1, 6, 2}

// words of up to maxLen letters over alphabet
func words(alphabet []int, maxLen int) [][]int {
	out := [][]int{{}}
	last := [][]int{{}}
	for l := 1; l <= maxLen; l++ {
		var next [][]int
		for _, w := range last {
			for _, a := range alphabet {
				nw := append(append([]int{}, w...), a)
				next = append(next, nw)
			}
		}
		out = append(out, next...)
		last = next
	}
	return out
}

func sum(v []int) int {
	s := 0
	for _, x := range v {
		s += x
	}
	return s
}

func Run(ctx *common.Ctx) int {
	cmp := enum.NewCmp(ctx, 1e-8)
	quick := ctx.Quick()
	exhaustive := true
	all := calls.ByGroup("C02")
	dRuns := e2.New(cmp, all[:1])
	dDist := e2.New(cmp, all[1:2])
	dLong := e2.New(cmp, all[2:])
	dAll := e2.New(cmp, all)
	// (a) runs total: every bit string of n = 1..18 (thorough ..23)
	maxN := 18
	if !quick {
		maxN = 23
	}
	for n := 1; n <= maxN; n++ {
		dRuns.Strings(n)
	}
	cmp.Sample(map[string]interface{}{"family": "runs total, all strings", "lengths": fmt.Sprintf("1..%d", maxN), "includes": "constant strings (V = +inf, P = Q = 0)"})
	// (b) runs distribution: run-length words around every cut-off
	lens := []int{100, 101, 1000, 20000}
	for k := 3; k <= 9; k++ {
		nk := 5*(1<<uint(k+2)) + k - 3
		lens = append(lens, nk-1, nk)
	}
	if !quick {
		lens = append(lens, 1000000)
	}
	kSeen := map[int]bool{}
	var distEvals int64
	for _, n := range lens {
		if ctx.Expired() {
			exhaustive = false
			break
		}
		k := refmodel.RunsDistK(n)
		kSeen[k] = true
		var alphabet []int
		for a := 1; a <= k+2; a++ {
			alphabet = append(alphabet, a)
		}
		alphabet = append(alphabet, k+9)
		preLen := 2
		if !quick && n <= 1300 {
			preLen = 3
		}
		if n >= 1000000 {
			preLen = 1
		}
		pre := words(alphabet, preLen)
		suf := words(alphabet, 2)
		if n >= 1000000 {
			suf = words(alphabet, 1)
		}
		common.ParFor(len(pre), func(pi int) {
			p := pre[pi]
			local := 0
			for _, s := range suf {
				rest := n - sum(p) - sum(s)
				if rest < 1 {
					continue
				}
				runs := append([]int{}, p...)
				fi := 0
				for rest > 0 {
					l := fillerRuns[fi%len(fillerRuns)]
					fi++
					if l > rest || rest-l < 1 && rest != l {
						l = rest
					}
					runs = append(runs, l)
					rest -= l
				}
				runs = append(runs, s...)
				for _, first := range []bool{true, false} {
					bits := fromRuns(runs, first)
					if len(bits) != n {
						panic("c02: run-length word has the wrong length")
					}
					local += dDist.One(bits, func() interface{} {
						return map[string]interface{}{"n": n, "cutoff_k": k, "first_symbol": first, "prefix_runs": p, "suffix_runs": s, "filler": "cyclic run lengths 1,2,1,1,3,2,1,4,1,1,2,5,1,3,1,2,1,1,6,2"}
					})
				}
			}
			atomic.AddInt64(&distEvals, int64(local))
		})
	}
	cmp.Count("runs distribution: run-length words (prefix x suffix x first symbol) at every cut-off boundary", distEvals)
	var ks []int
	for k := range kSeen {
		ks = append(ks, k)
	}
	cmp.Sample(map[string]interface{}{"family": "runs distribution run-length words", "lengths": lens, "cutoffs_k_covered": ks,
		"example": "n=321 (k=4): prefix runs [6 13], suffix runs [5], filler in between, starting with a one"})
	// constant / alternating / single long run
	for _, n := range []int{100, 128, 1000, 6272, 20000} {
		for _, mk := range []func(int) []bool{
			func(n int) []bool { return make([]bool, n) },
			func(n int) []bool { return enum.Repeat([]bool{true}, n) },
			func(n int) []bool { return enum.Repeat([]bool{true, false}, n) },
			func(n int) []bool { b := make([]bool, n); b[n-1] = true; return b },
			func(n int) []bool { b := make([]bool, n); b[0] = true; return b },
			func(n int) []bool { b := enum.Repeat([]bool{true}, n); b[n/2] = false; return b },
		} {
			bits := mk(n)
			cmp.Count("degenerate sequences", int64(dAll.One(bits, func() interface{} { return map[string]interface{}{"n": n, "bits_prefix": common.BitString(bits[:64])} })))
		}
	}
	// (c) longest run: regime for every n in 128..8000 on two fillers
	f1 := enum.Filler(8000, uint64(ctx.Seed)+11)
	f2 := enum.Repeat(common.ParseBits("1110110011110100111110"), 8000)
	var lrEvals int64
	common.ParFor(8000-127, func(i int) {
		n := i + 128
		k := dLong.One(f1[:n], func() interface{} { return map[string]interface{}{"n": n, "filler_seed": ctx.Seed + 11} })
		k += dLong.One(f2[:n], func() interface{} {
			return map[string]interface{}{"n": n, "pattern": "1110110011110100111110 repeated"}
		})
		atomic.AddInt64(&lrEvals, int64(k))
	})
	cmp.Count("longest run: every n in 128..8000 on two fillers (regime 8 -> 128 at 6272)", lrEvals)
	// 8-bit regime: every ordered pair of byte values filling the blocks alternately, n = 128..135
	lrEvals = 0
	common.ParFor(256, func(x int) {
		local := 0
		for y := 0; y < 256; y++ {
			data := make([]byte, 17)
			for i := range data {
				if i%2 == 0 {
					data[i] = byte(x)
				} else {
					data[i] = byte(y)
				}
			}
			bits := refmodel.Bits(data)
			for n := 128; n <= 135; n++ {
				if quick && n > 129 && (x+y)%4 != 0 {
					continue
				}
				local += dLong.One(bits[:n], func() interface{} {
					return map[string]interface{}{"n": n, "bytes_alternating": fmt.Sprintf("%02x %02x", x, y)}
				})
			}
		}
		atomic.AddInt64(&lrEvals, int64(local))
	})
	cmp.Count("longest run 8-bit regime: every ordered pair of block contents, n=128..135", lrEvals)
	// 128-bit and 10000-bit regimes: a block with longest run exactly l in first / middle / last block; runs straddling a boundary
	lrEvals = 0
	type regime struct {
		ns []int
		m  int
		ls []int
	}
	var l128, l10k []int
	for l := 0; l <= 128; l++ {
		l128 = append(l128, l)
	}
	for l := 0; l <= 30; l++ {
		l10k = append(l10k, l)
	}
	l10k = append(l10k, 9999, 10000)
	regs := []regime{{[]int{6272, 6273, 12800}, 128, l128}, {[]int{749999, 750000, 750001, 1000000}, 10000, l10k}}
	for _, rg := range regs {
		for _, n := range rg.ns {
			if ctx.Expired() {
				exhaustive = false
				break
			}
			m, _, _, _ := refmodel.LongestRunRegime(n)
			N := n / m
			ls := rg.ls
			if m != rg.m {
				// 749999 falls into the 128-bit regime: use its alphabet
				ls = l128
				if quick {
					ls = []int{0, 3, 4, 5, 8, 9, 10, 128}
				}
			}
			if quick && m == 10000 {
				ls = []int{0, 9, 10, 11, 13, 15, 16, 17, 30, 10000}
			}
			for _, sym := range []bool{true, false} {
				common.ParFor(len(ls), func(li int) {
					l := ls[li]
					local := 0
					for _, blk := range []int{0, N / 2, N - 1} {
						bits := make([]bool, n)
						for i := range bits {
							// background: alternating, longest run 1 of either symbol
							bits[i] = i%2 == 0
						}
						// block blk: runs of the chosen symbol of length exactly l (once), rest alternating; l=0: block of the other symbol only
						s := blk * m
						if l == 0 {
							for i := 0; i < m; i++ {
								bits[s+i] = !sym
							}
						} else {
							off := 3
							if off+l > m {
								off = m - l
							}
							if off > 0 {
								bits[s+off-1] = !sym
							}
							for i := 0; i < l; i++ {
								bits[s+off+i] = sym
							}
							if off+l < m {
								bits[s+off+l] = !sym
							}
						}
						local += dLong.One(bits, func() interface{} {
							return map[string]interface{}{"n": n, "block_length": m, "block": blk, "longest_run_in_block": l, "symbol": sym, "background": "alternating"}
						})
					}
					atomic.AddInt64(&lrEvals, int64(local))
				})
			}
			// runs of length 2..20 straddling the boundary between block 0 and 1 at every offset
			if m == 128 || !quick {
				maxRun := 20
				for run := 2; run <= maxRun; run++ {
					for off := 1; off < run; off++ {
						bits := make([]bool, n)
						for i := range bits {
							bits[i] = i%2 == 0
						}
						st := m - off
						if st > 0 {
							bits[st-1] = false
						}
						for i := 0; i < run; i++ {
							bits[st+i] = true
						}
						bits[st+run] = false
						lrEvals += int64(dLong.One(bits, func() interface{} {
							return map[string]interface{}{"n": n, "block_length": m, "run_of_ones": run, "bits_before_boundary": off}
						}))
					}
				}
			}
		}
	}
	cmp.Count("longest run 128/10000-bit regimes: block with longest run exactly l in first/middle/last block, boundary-straddling runs", lrEvals)
	cmp.Sample(map[string]interface{}{"family": "longest run classes", "example": "n=6272, block 24 holds a run of exactly 9 ones, all other blocks alternate (longest run 1)", "probabilities": "refmodel computes the exact class probabilities (big-integer recurrence) and rounds to the printed 4/4/6 decimals"})
	probs := map[string][]float64{}
	for _, n := range []int{128, 6272, 750000} {
		m, low, K, dg := refmodel.LongestRunRegime(n)
		probs[fmt.Sprint("m=", m)] = refmodel.LongestRunProbs(m, low, K, dg)
	}
	// S2 family on all three
	s2specs := []e2.LenSpec{{128, 7}, {129, 7}, {1000, 6}, {6271, 5}, {6272, 5}, {20000, 3}}
	if !quick {
		s2specs = []e2.LenSpec{{128, 8}, {129, 8}, {1000, 8}, {6271, 7}, {6272, 7}, {20000, 6}, {749999, 2}, {750000, 2}, {1000000, 2}}
	}
	ev, ok := dAll.S2(ctx, s2specs, !quick, 1100, func(n int) []int { m, _, _, _ := refmodel.LongestRunRegime(n); return []int{m} })
	cmp.Count("S2 periodic patterns with bit flips (all four run-based calls)", ev)
	exhaustive = exhaustive && ok
	fev, fok := dAll.Fillers(ctx, e2.WordLengths(6271, 6272, 6273, 20000), 2, uint64(ctx.Seed))
	cmp.Count("fillers and biased fillers at every n in 33..200 (from each call's minimum), around powers of two, 6272, 20000", fev)
	exhaustive = exhaustive && fok
	// byte entry point of the longest-run test in the 10000-bit regime: planted long runs of either symbol
	var lbEvals int64
	longL := []int{17, 100, 255, 256, 257, 260, 271, 272, 300, 511, 512, 520, 1030, 4096, 9999, 10000, 12000}
	common.ParFor(len(longL), func(li int) {
		L := longL[li]
		for _, sym := range []bool{true, false} {
			for _, n := range []int{750000, 1000000} {
				if quick && n == 750000 && li%3 != 0 {
					continue
				}
				bits := enum.Filler(n, uint64(ctx.Seed)+uint64(L))
				for _, start := range []int{5, 20000 - L/2, n - 10000 + 13} {
					if start < 0 || start+L+1 >= n {
						continue
					}
					if start > 0 {
						bits[start-1] = !sym
					}
					for j := 0; j < L; j++ {
						bits[start+j] = sym
					}
					bits[start+L] = !sym
				}
				nb := n / 8
				data := make([]byte, nb)
				for j := 0; j < nb*8; j++ {
					if bits[j] {
						data[j/8] |= 0x80 >> uint(j%8)
					}
				}
				b8 := bits[:nb*8]
				for _, ones := range []bool{true, false} {
					wp, wq := refmodel.LongestRun(b8, ones)
					var p, q float64
					name := fmt.Sprintf("LongestRunOfOnesInABlockTestBytes(ones=%v)", ones)
					desc := func() interface{} {
						return map[string]interface{}{"n": nb * 8, "filler_seed": ctx.Seed + int64(L), "planted_runs_of": sym, "run_length": L}
					}
					if pv := common.Catch(func() { p, q = r.LongestRunOfOnesInABlockTestBytes(data, ones) }); pv != nil {
						cmp.Panic(name, pv, desc())
						continue
					}
					cmp.PQ(name, uint64(L)<<8, p, q, wp, wq, desc)
					atomic.AddInt64(&lbEvals, 1)
				}
			}
		}
	})
	cmp.Count("longest run, byte entry point, 10000-bit regime: fillers with planted runs of 17..12000 ones/zeros", lbEvals)
	// byte strings over tiny alphabets - a sample may consist of printable digits, blanks or line ends only (a
	// counter read back as text, a stuck UART): they are binary data like any other. Every byte-oriented entry
	// point of the three tests against the reference on the MSB-first expansion.
	{
		alphabets := [][]byte{{0x30, 0x31}, {0x30, 0x31, 0x0A}, {0x20, 0x09, 0x0D, 0x0A}, {0x00, 0x01}, {0x30}, {0x31, 0x20}, {0xFF, 0xFE}, {0x41, 0x5A, 0x61, 0x7A}}
		var tEvals int64
		common.ParFor(len(alphabets), func(ai int) {
			al := alphabets[ai]
			for _, L := range []int{16, 40, 100, 800, 2500, 100000} {
				f := enum.FillerBytes(L, uint64(ctx.Seed)+uint64(L)+uint64(ai))
				data := make([]byte, L)
				for i := range data {
					data[i] = al[int(f[i])%len(al)]
				}
				bits := refmodel.Bits(data)
				desc := func() interface{} {
					return map[string]interface{}{"bytes": L, "alphabet_hex": fmt.Sprintf("%x", al), "filler_seed": ctx.Seed + int64(L) + int64(ai)}
				}
				type bc struct {
					name string
					f    func() (float64, float64)
					ref  func() (float64, float64)
					min  int
				}
				for _, c := range []bc{
					{"RunsTestBytes", func() (float64, float64) { return r.RunsTestBytes(data) }, func() (float64, float64) { return refmodel.Runs(bits) }, 1},
					{"RunsDistributionTestBytes", func() (float64, float64) { return r.RunsDistributionTestBytes(data) }, func() (float64, float64) { return refmodel.RunsDist(bits) }, 13},
					{"LongestRunOfOnesInABlockTestBytes(ones)", func() (float64, float64) { return r.LongestRunOfOnesInABlockTestBytes(data, true) }, func() (float64, float64) { return refmodel.LongestRun(bits, true) }, 16},
					{"LongestRunOfOnesInABlockTestBytes(zeros)", func() (float64, float64) { return r.LongestRunOfOnesInABlockTestBytes(data, false) }, func() (float64, float64) { return refmodel.LongestRun(bits, false) }, 16},
					{"Runs(runner)", func() (float64, float64) { x := r.Runs(data); return x.P, x.Q }, func() (float64, float64) { return refmodel.Runs(bits) }, 1},
					{"RunsDistribution(runner)", func() (float64, float64) { x := r.RunsDistribution(data); return x.P, x.Q }, func() (float64, float64) { return refmodel.RunsDist(bits) }, 13},
					{"LongestRunOfOnesInABlock(runner)", func() (float64, float64) { x := r.LongestRunOfOnesInABlock(data); return x.P, x.Q }, func() (float64, float64) { return refmodel.LongestRun(bits, true) }, 16},
				} {
					if L < c.min {
						continue
					}
					var p, q float64
					if pv := common.Catch(func() { p, q = c.f() }); pv != nil {
						cmp.Panic(c.name, pv, desc())
						continue
					}
					wp, wq := c.ref()
					cmp.PQ(c.name, uint64(L)<<8|uint64(ai), p, q, wp, wq, desc)
					atomic.AddInt64(&tEvals, 1)
				}
			}
		})
		cmp.Count("byte entry points and runners on byte strings over eight tiny alphabets (digits, blanks, line ends, ...), 16..100000 bytes", tEvals)
	}
	// runs that start on and span power-of-two positions in long samples (a chunked / word-wise / parallel scan
	// stitches its pieces exactly there): fillers of 2^18 and 10^6 bits with one planted run, all four calls
	type planted struct{ n, k, j, L, off int }
	var pl []planted
	for _, n := range []int{1 << 18, 1000000} {
		for k := 10; k <= 17; k++ {
			for j := 1; j <= 3; j++ {
				for _, L := range []int{1<<uint(k) - 1, 1 << uint(k), 1<<uint(k) + 1, 2 << uint(k)} {
					for _, off := range []int{0, 1} {
						if quick && (off == 1 && L != 1<<uint(k) || k%2 == 1 && n == 1000000) {
							continue
						}
						if j<<uint(k)+off+L+1 < n {
							pl = append(pl, planted{n, k, j, L, off})
						}
					}
				}
			}
		}
	}
	var plEvals int64
	common.ParFor(len(pl), func(i int) {
		c := pl[i]
		for _, sym := range []bool{true, false} {
			bits := enum.Filler(c.n, uint64(ctx.Seed)+uint64(c.k))
			start := c.j<<uint(c.k) + c.off
			bits[start-1] = !sym
			for t := 0; t < c.L; t++ {
				bits[start+t] = sym
			}
			bits[start+c.L] = !sym
			atomic.AddInt64(&plEvals, int64(dAll.One(bits, func() interface{} {
				return map[string]interface{}{"n": c.n, "filler_seed": ctx.Seed + int64(c.k), "planted_run_of": sym, "run_start": start, "run_length": c.L}
			})))
		}
	})
	cmp.Count("fillers of 2^18 and 10^6 bits with one run planted at j*2^k (+0/+1), k=10..17, of length 2^k-1, 2^k, 2^k+1, 2^(k+1), both symbols (all four run-based calls)", plEvals)
	cov := cmp.Coverage("runs total: every bit string n=1.."+fmt.Sprint(maxN)+"; runs distribution: every run-length word (prefix <=2(3) letters, suffix <=2 letters over {1..k+2,k+9}, both first symbols) at n in {100,101,1000,20000} and n_k-1, n_k for every cut-off k=3..9; "+
		"longest run: every n in 128..8000, every ordered pair of 8-bit block contents at n=128..135, a block of every longest-run value in first/middle/last block and boundary-straddling runs in the 128- and 10000-bit regimes, both symbols; S2 periodic patterns with <=1(2) flips; "+
		"distinct = distinct (call, reference P) pairs with 0<P<1", exhaustive,
		common.Coverage{"exact_class_probabilities_rounded": probs})
	return ctx.Finish("exploration", cov, []string{"oracle: refmodel; class probabilities of the longest-run test are recomputed exactly and rounded to the printed precision, not copied", "tolerance 1e-8"})
}
