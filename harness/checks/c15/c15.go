// Package c15: all entry points to a test agree: bytes vs bits, defaults, registry order (E2).
package c15

import (
	"fmt"
	"math"
	"os"
	"path/filepath"
	"runtime"
	"strings"
	"sync"
	"sync/atomic"
	"syscall"
	"time"

	r "github.com/Trisia/randomness"
	"github.com/Trisia/randomness/detect"

	"verif/common"
	"verif/enum"
	"verif/refmodel"
)

type pair struct {
	name  string
	minB  int // minimal number of bytes
	bytes func(d []byte) []float64
	bits  func(b []bool) []float64
}

func two(p, q float64) []float64        { return []float64{p, q} }
func four(a, b, c, d float64) []float64 { return []float64{a, b, c, d} }

func pairs() []pair {
	ps := []pair{
		{"MonoBitFrequencyTestBytes~MonoBitFrequencyTest", 1, func(d []byte) []float64 { return two(r.MonoBitFrequencyTestBytes(d)) }, func(b []bool) []float64 { return two(r.MonoBitFrequencyTest(b)) }},
		{"RunsTestBytes~RunsTest", 1, func(d []byte) []float64 { return two(r.RunsTestBytes(d)) }, func(b []bool) []float64 { return two(r.RunsTest(b)) }},
		{"RunsDistributionTestBytes~RunsDistributionTest", 13, func(d []byte) []float64 { return two(r.RunsDistributionTestBytes(d)) }, func(b []bool) []float64 { return two(r.RunsDistributionTest(b)) }},
		{"MatrixRankTestBytes(32,32)~MatrixRankProto", 128, func(d []byte) []float64 { return two(r.MatrixRankTestBytes(d, 32, 32)) }, func(b []bool) []float64 { return two(r.MatrixRankProto(b, 32, 32)) }},
		{"MaurerUniversalTestBytes~MaurerUniversalTest", 1121, func(d []byte) []float64 { return two(r.MaurerUniversalTestBytes(d)) }, func(b []bool) []float64 { return two(r.MaurerUniversalTest(b)) }},
		{"DiscreteFourierTransformTestBytes~DiscreteFourierTransformTest", 1, func(d []byte) []float64 { return two(r.DiscreteFourierTransformTestBytes(d)) }, func(b []bool) []float64 { return two(r.DiscreteFourierTransformTest(b)) }},
	}
	for _, m := range []int{2, 3, 5, 8, 10, 100} {
		m := m
		ps = append(ps, pair{fmt.Sprintf("FrequencyWithinBlockTestBytes(m=%d)~Proto", m), (m + 7) / 8, func(d []byte) []float64 { return two(r.FrequencyWithinBlockTestBytes(d, m)) }, func(b []bool) []float64 { return two(r.FrequencyWithinBlockProto(b, m)) }})
	}
	for _, m := range []int{2, 4, 8} {
		m := m
		ps = append(ps, pair{fmt.Sprintf("PokerTestBytes(m=%d)~PokerProto", m), 1, func(d []byte) []float64 { return two(r.PokerTestBytes(d, m)) }, func(b []bool) []float64 { return two(r.PokerProto(b, m)) }})
	}
	for _, m := range []int{2, 3, 5, 7} {
		m := m
		ps = append(ps, pair{fmt.Sprintf("OverlappingTemplateMatchingTestBytes(m=%d)~Proto", m), 1, func(d []byte) []float64 { return four(r.OverlappingTemplateMatchingTestBytes(d, m)) }, func(b []bool) []float64 { return four(r.OverlappingTemplateMatchingProto(b, m)) }})
	}
	for _, one := range []bool{true, false} {
		one := one
		ps = append(ps, pair{fmt.Sprintf("LongestRunOfOnesInABlockTestBytes(ones=%v)~Proto", one), 16, func(d []byte) []float64 { return two(r.LongestRunOfOnesInABlockTestBytes(d, one)) }, func(b []bool) []float64 { return two(r.LongestRunOfOnesInABlockProto(b, one)) }})
	}
	for _, k := range []int{3, 7, 15} {
		k := k
		ps = append(ps, pair{fmt.Sprintf("BinaryDerivativeTestBytes(k=%d)~Proto", k), (k + 8) / 8, func(d []byte) []float64 { return two(r.BinaryDerivativeTestBytes(d, k)) }, func(b []bool) []float64 { return two(r.BinaryDerivativeProto(b, k)) }})
	}
	for _, dd := range []int{1, 2, 8, 16, 32} {
		dd := dd
		mb := 2
		if dd >= 16 {
			mb = dd/8 + 1
		}
		ps = append(ps, pair{fmt.Sprintf("AutocorrelationTestBytes(d=%d)~Proto", dd), mb, func(d []byte) []float64 { return two(r.AutocorrelationTestBytes(d, dd)) }, func(b []bool) []float64 { return two(r.AutocorrelationProto(b, dd)) }})
	}
	for _, fw := range []bool{true, false} {
		fw := fw
		ps = append(ps, pair{fmt.Sprintf("CumulativeTestBytes(forward=%v)~CumulativeTest", fw), 1, func(d []byte) []float64 { return two(r.CumulativeTestBytes(d, fw)) }, func(b []bool) []float64 { return two(r.CumulativeTest(b, fw)) }})
	}
	for _, m := range []int{2, 5, 7} {
		m := m
		ps = append(ps, pair{fmt.Sprintf("ApproximateEntropyTestBytes(m=%d)~Proto", m), 1, func(d []byte) []float64 { return two(r.ApproximateEntropyTestBytes(d, m)) }, func(b []bool) []float64 { return two(r.ApproximateEntropyProto(b, m)) }})
	}
	for _, m := range []int{8, 500, 1000, 5000} {
		m := m
		ps = append(ps, pair{fmt.Sprintf("LinearComplexityTestBytes(m=%d)~Proto", m), (m + 7) / 8, func(d []byte) []float64 { return two(r.LinearComplexityTestBytes(d, m)) }, func(b []bool) []float64 { return two(r.LinearComplexityProto(b, m)) }})
	}
	return ps
}

// defaults: registry runner i  ~  parameterised entry point with the standard's 10^6-bit defaults
type def struct {
	item int
	minB int
	name string
	f    func(d []byte) []float64 // P, Q (P1,P2,Q1,Q2 for overlapping)
}

func defaults() []def {
	return []def{
		{0, 1, "monobit", func(d []byte) []float64 { return two(r.MonoBitFrequencyTestBytes(d)) }},
		{1, 2, "block frequency (automatic m)", func(d []byte) []float64 { return two(r.FrequencyWithinBlockTest(refmodel.Bits(d))) }},
		{2, 1, "poker m=8", func(d []byte) []float64 { return two(r.PokerTestBytes(d, 8)) }},
		{3, 1, "overlapping m=5", func(d []byte) []float64 { return four(r.OverlappingTemplateMatchingTestBytes(d, 5)) }},
		{4, 1, "runs", func(d []byte) []float64 { return two(r.RunsTestBytes(d)) }},
		{5, 13, "runs distribution", func(d []byte) []float64 { return two(r.RunsDistributionTestBytes(d)) }},
		{6, 16, "longest run of ones", func(d []byte) []float64 { return two(r.LongestRunOfOnesInABlockTestBytes(d, true)) }},
		{7, 2, "binary derivative k=7", func(d []byte) []float64 { return two(r.BinaryDerivativeTestBytes(d, 7)) }},
		{8, 3, "autocorrelation d=16", func(d []byte) []float64 { return two(r.AutocorrelationTestBytes(d, 16)) }},
		{9, 128, "rank 32x32", func(d []byte) []float64 { return two(r.MatrixRankTestBytes(d, 32, 32)) }},
		{10, 1, "cumulative sums forward", func(d []byte) []float64 { return two(r.CumulativeTestBytes(d, true)) }},
		{11, 1, "approximate entropy m=5", func(d []byte) []float64 { return two(r.ApproximateEntropyTestBytes(d, 5)) }},
		{12, 63, "linear complexity m=500", func(d []byte) []float64 { return two(r.LinearComplexityTestBytes(d, 500)) }},
		{13, 1121, "Maurer", func(d []byte) []float64 { return two(r.MaurerUniversalTestBytes(d)) }},
		{14, 1, "DFT", func(d []byte) []float64 { return two(r.DiscreteFourierTransformTestBytes(d)) }},
	}
}

var keywords = []string{"单比特", "块内频数", "扑克", "重叠", "游程总数", "游程分布", "最大", "二元推导", "自相关", "矩阵秩", "累加和", "近似熵", "复杂度", "通用统计", "傅里叶"}

func identical(a, b []float64) bool {
	if len(a) != len(b) {
		return false
	}
	for i := range a {
		if math.Float64bits(a[i]) != math.Float64bits(b[i]) && !(math.IsNaN(a[i]) && math.IsNaN(b[i])) {
			return false
		}
	}
	return true
}

func Run(ctx *common.Ctx) int {
	quick := ctx.Quick()
	var evals int64
	distinct := enum.NewDistinctSet()
	var samples []interface{}
	ps := pairs()
	cmpPair := func(p *pair, data []byte, desc func() interface{}) {
		if len(data) < p.minB {
			return
		}
		var a, b []float64
		atomic.AddInt64(&evals, 1)
		pa := common.Catch(func() { a = p.bytes(data) })
		pb := common.Catch(func() { b = p.bits(refmodel.Bits(data)) })
		if pa != nil || pb != nil {
			if (pa == nil) != (pb == nil) {
				ctx.Report(p.name+"/panic", fmt.Sprintf("%s: one entry point panics (%v), the other does not (%v)", p.name, pa, pb), desc())
			}
			return
		}
		if len(a) > 0 {
			distinct.Add(math.Float64bits(a[0]) ^ uint64(len(p.name))<<50)
		}
		if !identical(a, b) {
			ctx.Report(p.name+"/differs", fmt.Sprintf("%s: byte entry point returns %v, bit entry point on the MSB-first expansion returns %v", p.name, a, b), desc())
		}
	}
	// (0) the agreement must also hold when the machine is busy: eight goroutines per CPU call the byte entry
	// point, the bit entry point and (where there is one) the registry runner of the same test at once, three
	// rounds on byte strings of four sizes; every result is compared with the one computed beforehand on a single
	// goroutine (a pooled work array handed back too early, a shared scratch buffer shows here and nowhere else)
	{
		loadData := [][]byte{enum.FillerBytes(1121, uint64(ctx.Seed)+71), enum.FillerBytes(2500, uint64(ctx.Seed)+72), enum.FillerBytes(4099, uint64(ctx.Seed)+73), enum.FillerBytes(8192, uint64(ctx.Seed)+74)}
		loadBits := make([][]bool, len(loadData))
		for i := range loadData {
			loadBits[i] = refmodel.Bits(loadData[i])
		}
		type ref struct{ a, b []float64 }
		refs := make([][]ref, len(ps))
		reps := make([]int, len(ps)) // cheap pairs are repeated in a tight loop: the window for a hand-over is short
		for i := range ps {
			refs[i] = make([]ref, len(loadData))
			t0 := time.Now()
			for k := range loadData {
				if len(loadData[k]) >= ps[i].minB {
					_ = common.Catch(func() { refs[i][k] = ref{ps[i].bytes(loadData[k]), ps[i].bits(loadBits[k])} })
				}
			}
			reps[i] = 1
			if d := time.Since(t0); d < 40*time.Millisecond {
				reps[i] = 25
			}
		}
		workers := 8 * runtime.NumCPU()
		var wgl sync.WaitGroup
		for g := 0; g < workers; g++ {
			g := g
			wgl.Add(1)
			go func() {
				defer wgl.Done()
				for round := 0; round < 3; round++ {
					for i := range ps {
						k := (g + i + round) % len(loadData)
						if refs[i][k].a == nil || strings.Contains(ps[i].name, "LinearComplexity") && round > 0 {
							continue
						}
						var a, b []float64
						for rep := 1; rep < reps[i]; rep++ {
							kk := (k + rep) % len(loadData)
							if refs[i][kk].a == nil {
								continue
							}
							var a2 []float64
							if pv := common.Catch(func() { a2 = ps[i].bytes(loadData[kk]) }); pv == nil && !identical(a2, refs[i][kk].a) {
								ctx.Report(ps[i].name+"/under-load", fmt.Sprintf("%s: with %d goroutines calling the entry points at once the byte entry point returns %v, alone it returns %v", ps[i].name, workers, a2, refs[i][kk].a),
									map[string]interface{}{"bytes": len(loadData[kk]), "filler_seed": ctx.Seed + 71 + int64(kk)})
							}
						}
						if pv := common.Catch(func() { a, b = ps[i].bytes(loadData[k]), ps[i].bits(loadBits[k]) }); pv != nil {
							ctx.Report(ps[i].name+"/under-load", fmt.Sprintf("%s panicked under load: %v", ps[i].name, pv), map[string]interface{}{"bytes": len(loadData[k])})
							continue
						}
						atomic.AddInt64(&evals, 1)
						if !identical(a, refs[i][k].a) || !identical(b, refs[i][k].b) {
							ctx.Report(ps[i].name+"/under-load", fmt.Sprintf("%s: with %d goroutines calling the entry points at once the byte / bit entry points return %v / %v, alone they return %v / %v", ps[i].name, workers, a, b, refs[i][k].a, refs[i][k].b),
								map[string]interface{}{"bytes": len(loadData[k]), "filler_seed": ctx.Seed + 71 + int64(k)})
						}
					}
				}
			}()
		}
		wgl.Wait()
		// ... and every pair on its own: all goroutines call nothing but that pair's byte entry point for 80 ms
		// (a goroutine suspended between a callee's return and the use of what it returned meets only callers
		// of the same function on its processor)
		for i := range ps {
			if ctx.Expired() {
				break
			}
			stop := time.Now().Add(80 * time.Millisecond)
			var wgp sync.WaitGroup
			var bad int32
			for g := 0; g < workers; g++ {
				g := g
				wgp.Add(1)
				go func() {
					defer wgp.Done()
					for it := 0; it < 3 || time.Now().Before(stop); it++ {
						k := (g + it) % len(loadData)
						if refs[i][k].a == nil {
							continue
						}
						var a2 []float64
						pv := common.Catch(func() { a2 = ps[i].bytes(loadData[k]) })
						atomic.AddInt64(&evals, 1)
						if pv == nil && !identical(a2, refs[i][k].a) && atomic.AddInt32(&bad, 1) == 1 {
							ctx.Report(ps[i].name+"/under-load", fmt.Sprintf("%s: with %d goroutines calling it at once the byte entry point returns %v, alone it returns %v", ps[i].name, workers, a2, refs[i][k].a),
								map[string]interface{}{"bytes": len(loadData[k]), "filler_seed": ctx.Seed + 71 + int64(k)})
						}
						if it > 100000 {
							break
						}
					}
				}()
			}
			wgp.Wait()
		}
		samples = append(samples, map[string]interface{}{"family": "entry points under load", "goroutines": workers, "rounds": 3, "byte_lengths": []int{1121, 2500, 4099, 8192}})
	}
	// (1) bytes vs bits: every 1-, 2- (3-) byte string
	maxB := 2
	if !quick {
		maxB = 3
	}
	for nb := 1; nb <= maxB; nb++ {
		total := 1 << uint(8*nb)
		common.ParFor(total/256, func(hi int) {
			data := make([]byte, nb)
			for lo := 0; lo < 256; lo++ {
				v := hi*256 + lo
				for k := 0; k < nb; k++ {
					data[k] = byte(v >> uint(8*(nb-1-k)))
				}
				for i := range ps {
					if nb == 3 && !(strings.HasPrefix(ps[i].name, "MonoBit") || strings.HasPrefix(ps[i].name, "Poker")) && v%7 != 0 {
						continue
					}
					cmpPair(&ps[i], data, func() interface{} { return map[string]interface{}{"bytes": fmt.Sprintf("%x", data)} })
				}
			}
		})
	}
	samples = append(samples, map[string]interface{}{"family": "bytes vs bits", "inputs": fmt.Sprintf("every 1..%d-byte string", maxB), "pairs": len(ps)})
	// byte patterns repeated to 16, 128, 1121 and 2500 bytes (all tests admissible), fillers
	patLens := []int{16, 128, 1121, 2500}
	npat := 256
	if !quick {
		npat = 65536
	}
	common.ParFor(npat, func(pv int) {
		for _, L := range patLens {
			if !quick && L > 128 && pv%16 != 0 {
				continue
			}
			data := make([]byte, L)
			for i := range data {
				if npat == 256 {
					data[i] = byte(pv)
				} else if i%2 == 0 {
					data[i] = byte(pv >> 8)
				} else {
					data[i] = byte(pv)
				}
			}
			// one deviation so that the sequence is not purely periodic
			data[L/3] ^= 0x5A
			for i := range ps {
				if L >= 1121 && strings.Contains(ps[i].name, "m=5000") {
					if pv%8 != 0 {
						continue
					}
				}
				cmpPair(&ps[i], data, func() interface{} {
					return map[string]interface{}{"pattern": pv, "bytes": L, "deviation": "byte L/3 xor 0x5A"}
				})
			}
		}
	})
	// byte lengths at which some test changes regime (runs-distribution cut-off at 8L = 5*2^(k+2)+k-3: 20, 5121, 1310722;
	// longest run at 784 and 93750; automatic block length at 125, 1250, 125000), each with its neighbours
	regime := []int{19, 20, 21, 124, 126, 783, 784, 785, 1249, 1250, 1251, 5120, 5121, 5122, 93749, 93750, 93751}
	if !quick {
		regime = append(regime, 1310721, 1310722, 1310723)
	}
	for _, L := range append([]int{1, 2, 3, 7, 15, 16, 17, 63, 64, 125, 128, 129, 1121, 2500, 12500, 125000}, regime...) {
		data := enum.FillerBytes(L, uint64(ctx.Seed)+uint64(L))
		for i := range ps {
			if L >= 12500 && strings.Contains(ps[i].name, "LinearComplexity") && !strings.Contains(ps[i].name, "m=500)") {
				continue
			}
			if L > 200000 && !(strings.HasPrefix(ps[i].name, "Runs") || strings.HasPrefix(ps[i].name, "MonoBit") || strings.HasPrefix(ps[i].name, "LongestRun") || strings.HasPrefix(ps[i].name, "Poker")) {
				continue
			}
			cmpPair(&ps[i], data, func() interface{} { return map[string]interface{}{"filler_bytes": L, "seed": ctx.Seed + int64(L)} })
		}
	}
	// beyond 125000 bytes: lengths just above 2^20 that are not multiples of 2..32 (a chunked or parallel
	// conversion that mishandles the remainder shows only there), cheap pairs only
	bigLens := []int{1<<20 + 3, 1<<20 + 4099}
	if !quick {
		bigLens = append(bigLens, 3000007, 12500003)
	}
	for _, L := range bigLens {
		data := enum.FillerBytes(L, uint64(ctx.Seed)+uint64(L))
		for k := 1; k <= 40; k++ {
			data[L-k] |= 0x81 // non-zero tail
		}
		want := refmodel.Bits(data)
		if got := r.B2bitArr(data); common.BitString(got[len(got)-512:]) != common.BitString(want[len(want)-512:]) || len(got) != len(want) {
			ctx.Report("B2bitArr/large", fmt.Sprintf("B2bitArr of %d bytes is not the MSB-first expansion (tail differs)", L), map[string]interface{}{"bytes": L})
		} else {
			for i := range got {
				if got[i] != want[i] {
					ctx.Report("B2bitArr/large", fmt.Sprintf("B2bitArr of %d bytes differs from the MSB-first expansion at bit %d", L, i), map[string]interface{}{"bytes": L})
					break
				}
			}
		}
		for i := range ps {
			n := ps[i].name
			if strings.HasPrefix(n, "MonoBit") || strings.HasPrefix(n, "RunsTestBytes") || strings.HasPrefix(n, "PokerTestBytes(m=8)") || strings.HasPrefix(n, "PokerTestBytes(m=4)") ||
				strings.HasPrefix(n, "AutocorrelationTestBytes(d=16)") || strings.HasPrefix(n, "CumulativeTestBytes(forward=true)") || strings.HasPrefix(n, "BinaryDerivativeTestBytes(k=7)") ||
				strings.HasPrefix(n, "FrequencyWithinBlockTestBytes(m=100)") || strings.HasPrefix(n, "LongestRun") {
				cmpPair(&ps[i], data, func() interface{} { return map[string]interface{}{"filler_bytes": L, "seed": ctx.Seed + int64(L)} })
			}
		}
	}
	// a stuck source of 2^24 (+5) bytes and a 2^24+3-byte zero header before filler data: one byte value occurs
	// 2^24 times (a pattern counter, its square or a shifted copy held in 32 bits wraps exactly here); poker and
	// monobit pairs only, when the machine has the memory for the bit-level twin (about 1 GB)
	if memAvailableGB() >= 8 {
		for variant := 0; variant < 2; variant++ {
			L := 1<<24 + 5
			data := make([]byte, L)
			what := "2^24+5 zero bytes"
			if variant == 1 {
				L = 1<<24 + 3 + 100000
				data = make([]byte, L)
				copy(data[1<<24+3:], enum.FillerBytes(100000, uint64(ctx.Seed)+99))
				what = "2^24+3 zero bytes followed by 100000 filler bytes"
			}
			for i := range ps {
				n := ps[i].name
				if strings.HasPrefix(n, "PokerTestBytes(m=8)") || strings.HasPrefix(n, "PokerTestBytes(m=4)") || strings.HasPrefix(n, "MonoBit") {
					cmpPair(&ps[i], data, func() interface{} { return map[string]interface{}{"bytes": L, "content": what} })
				}
			}
		}
	} else {
		ctx.Note("less than 8 GB available: the 2^24-byte stuck-source pairs were skipped")
	}
	// 125000-byte inputs with planted long runs (the 10000-bit regime of the longest-run test)
	for _, L := range []int{255, 256, 260, 272, 512, 520, 1030, 4096, 9999, 10000} {
		data := enum.FillerBytes(125000, uint64(ctx.Seed)+uint64(L)+31)
		for _, start := range []int{1, 30000, 124990 - L/8} {
			for j := 0; j <= L/8; j++ {
				v := byte(0xFF)
				if (start/7)%2 == 1 {
					v = 0x00
				}
				data[start+j] = v
			}
			data[start+L/8+1] = 0x55
		}
		for i := range ps {
			if strings.HasPrefix(ps[i].name, "LongestRun") || strings.HasPrefix(ps[i].name, "RunsDistribution") || strings.HasPrefix(ps[i].name, "RunsTestBytes") {
				cmpPair(&ps[i], data, func() interface{} { return map[string]interface{}{"bytes": 125000, "planted_run_bits": L} })
			}
		}
	}
	samples = append(samples, map[string]interface{}{"family": "bytes vs bits, long inputs", "inputs": fmt.Sprintf("%d byte patterns repeated to %v bytes with one deviation; fillers of 1..125000 bytes", npat, patLens)})
	// (2) registry runners vs entry points with the standard's defaults (bit-identical, Pass consistent)
	dfs := defaults()
	runnerCheck := func(data []byte, desc func() interface{}) {
		for _, d := range dfs {
			if len(data) < d.minB {
				continue
			}
			var res *r.TestResult
			var want []float64
			atomic.AddInt64(&evals, 1)
			p1 := common.Catch(func() { res = r.TestMethodArr[d.item].Runner(data) })
			p2 := common.Catch(func() { want = d.f(data) })
			if p1 == nil && res == nil {
				ctx.Report(fmt.Sprintf("runner%d/nil", d.item), fmt.Sprintf("registry runner %d returned nil", d.item), desc())
				continue
			}
			if p1 != nil || p2 != nil {
				if (p1 == nil) != (p2 == nil) {
					ctx.Report(fmt.Sprintf("runner%d/panic", d.item), fmt.Sprintf("registry runner %d vs %s: one panics (%v), the other does not (%v)", d.item, d.name, p1, p2), desc())
				}
				continue
			}
			got := []float64{res.P, res.Q}
			minP := res.P
			if len(want) == 4 {
				got = []float64{res.P, res.P2, res.Q, res.Q2}
				minP = math.Min(res.P, res.P2)
			}
			if !identical(got, want) {
				ctx.Report(fmt.Sprintf("runner%d/default", d.item), fmt.Sprintf("registry runner %d returns %v, the entry point with the standard's default (%s) returns %v", d.item, got, d.name, want), desc())
			}
			if res.Pass != (minP >= 0.01) {
				ctx.Report(fmt.Sprintf("runner%d/pass", d.item), fmt.Sprintf("registry runner %d: Pass=%v but P=%v", d.item, res.Pass, minP), desc())
			}
		}
		// Round15 / Round12 against the registry, in order
		if len(data) >= 1121 {
			r15 := detect.Round15(data)
			if len(r15) != 15 {
				ctx.Report("Round15/len", fmt.Sprintf("Round15 returns %d results", len(r15)), desc())
			}
			for i := 0; i < len(r15) && i < 15; i++ {
				w := r.TestMethodArr[i].Runner(data)
				if r15[i] == nil || w == nil {
					ctx.Report(fmt.Sprintf("Round15/item%d", i), fmt.Sprintf("Round15(data)[%d] is missing (nil)", i), desc())
					continue
				}
				if !identical([]float64{r15[i].P, r15[i].Q, r15[i].P2, r15[i].Q2}, []float64{w.P, w.Q, w.P2, w.Q2}) || r15[i].Pass != w.Pass {
					ctx.Report(fmt.Sprintf("Round15/item%d", i), fmt.Sprintf("Round15(data)[%d] differs from registry runner %d on the same data", i, i), desc())
				}
			}
			atomic.AddInt64(&evals, 1)
		}
		if len(data) >= 128 {
			r12 := detect.Round12(data)
			if len(r12) != 12 {
				ctx.Report("Round12/len", fmt.Sprintf("Round12 returns %d results", len(r12)), desc())
			}
			for i := 0; i < len(r12) && i < 12; i++ {
				w := r.TestMethodArr[i].Runner(data)
				if r12[i] == nil || w == nil {
					ctx.Report(fmt.Sprintf("Round12/item%d", i), fmt.Sprintf("Round12(data)[%d] is missing (nil): the reduced round must run exactly the first twelve tests", i), desc())
					continue
				}
				if !identical([]float64{r12[i].P, r12[i].Q, r12[i].P2, r12[i].Q2}, []float64{w.P, w.Q, w.P2, w.Q2}) || r12[i].Pass != w.Pass {
					ctx.Report(fmt.Sprintf("Round12/item%d", i), fmt.Sprintf("Round12(data)[%d] differs from registry runner %d on the same data", i, i), desc())
				}
			}
			atomic.AddInt64(&evals, 1)
		}
	}
	common.ParFor(256, func(pv int) {
		for _, L := range []int{128, 1121, 2500} {
			data := make([]byte, L)
			for i := range data {
				data[i] = byte(pv)
			}
			data[L/3] ^= 0xA5
			data[L-1] ^= 0x01
			runnerCheck(data, func() interface{} { return map[string]interface{}{"pattern": pv, "bytes": L} })
		}
	})
	for s := 0; s < 3; s++ {
		for _, L := range []int{128, 1121, 2500, 125000} {
			if L == 125000 && s > 0 && quick {
				continue
			}
			data := enum.FillerBytes(L, uint64(ctx.Seed)+uint64(100+s))
			runnerCheck(data, func() interface{} { return map[string]interface{}{"filler_bytes": L, "seed": ctx.Seed + int64(100+s)} })
		}
	}
	samples = append(samples, map[string]interface{}{"family": "runner defaults", "inputs": "every 1-byte pattern repeated to 128/1121/2500 bytes (two deviations), fillers incl. 125000 bytes", "defaults": "poker m=8, overlapping m=5, longest run of ones, binary derivative k=7, autocorrelation d=16, 32x32, forward, approximate entropy m=5, linear complexity m=500"})
	// (3) registry order: names and semantics (runner i agrees with reference test i)
	if len(r.TestMethodArr) != 15 {
		ctx.Report("registry/len", fmt.Sprintf("the registry lists %d tests", len(r.TestMethodArr)), nil)
	}
	for i, kw := range keywords {
		if i < len(r.TestMethodArr) && !strings.Contains(r.TestMethodArr[i].Name, kw) {
			ctx.Report(fmt.Sprintf("registry/name%d", i), fmt.Sprintf("registry entry %d is named %q; the standard's test %d is %q", i, r.TestMethodArr[i].Name, i+1, kw), nil)
		}
	}
	refs := []func(b []bool) float64{
		func(b []bool) float64 { p, _ := refmodel.Monobit(b); return p },
		func(b []bool) float64 { p, _ := refmodel.BlockFreq(b, refmodel.AutoM(len(b))); return p },
		func(b []bool) float64 { p, _ := refmodel.Poker(b, 8); return p },
		func(b []bool) float64 { p, _, _, _ := refmodel.Overlapping(b, 5); return p },
		func(b []bool) float64 { p, _ := refmodel.Runs(b); return p },
		func(b []bool) float64 { p, _ := refmodel.RunsDist(b); return p },
		func(b []bool) float64 { p, _ := refmodel.LongestRun(b, true); return p },
		func(b []bool) float64 { p, _ := refmodel.BinaryDerivative(b, 7); return p },
		func(b []bool) float64 { p, _ := refmodel.Autocorrelation(b, 16); return p },
		func(b []bool) float64 { p, _ := refmodel.MatrixRank(b); return p },
		func(b []bool) float64 { p, _ := refmodel.Cusum(b, true); return p },
		func(b []bool) float64 { p, _ := refmodel.ApEn(b, 5); return p },
		func(b []bool) float64 { p, _ := refmodel.LinearComplexity(b, 500); return p },
		func(b []bool) float64 { p, _ := refmodel.Maurer(b); return p },
		nil, // DFT is compared through its count interval in C05; here only by name and by Round15
	}
	for s := 0; s < 3; s++ {
		data := enum.FillerBytes(2500, uint64(ctx.Seed)+uint64(7*s+1))
		// bias the probe so that the fifteen P-values are pairwise well separated
		for i := range data {
			if i%(5+s) == 0 {
				data[i] |= 0x11
			}
		}
		bits := refmodel.Bits(data)
		for i, rf := range refs {
			if rf == nil || i >= len(r.TestMethodArr) {
				continue
			}
			got := r.TestMethodArr[i].Runner(data).P
			want := rf(bits)
			atomic.AddInt64(&evals, 1)
			if math.Abs(got-want) > 1e-8 {
				ctx.Report(fmt.Sprintf("registry/semantics%d", i), fmt.Sprintf("registry runner %d returns P=%.10g on probe %d; the standard's test %d with its default parameters gives %.10g", i, got, s, i+1, want), map[string]interface{}{"probe_seed": ctx.Seed + int64(7*s+1)})
			}
		}
	}
	samples = append(samples, map[string]interface{}{"family": "registry", "checks": "15 entries, name keywords in the standard's order, runner i = reference test i on three biased probes, Round15[i] = runner i, Round12 = first twelve"})
	// (4) ReadGroup and the byte->bit expansion
	dir := filepath.Join(ctx.Work, "c15files")
	_ = os.MkdirAll(dir, 0o755)
	var lens []int
	for l := 0; l <= 64; l++ {
		lens = append(lens, l)
	}
	lens = append(lens, 125000, 125001, 4095, 4096, 4097, 32768, 65535, 65536, 65537, 131071, 131072, 131073, 262144)
	for _, l := range lens {
		data := enum.FillerBytes(l, uint64(ctx.Seed)+uint64(l)+500)
		fn := filepath.Join(dir, fmt.Sprintf("f%d.bin", l))
		_ = os.WriteFile(fn, data, 0o644)
		var got []bool
		pv := common.Catch(func() { got = r.ReadGroup(fn) })
		want := refmodel.Bits(data)
		atomic.AddInt64(&evals, 1)
		if pv != nil || common.BitString(got) != common.BitString(want) || common.BitString(r.B2bitArr(data)) != common.BitString(want) {
			ctx.Report("ReadGroup", fmt.Sprintf("ReadGroup of a %d-byte file does not yield the MSB-first expansion of its bytes (panic=%v, %d bits)", l, pv, len(got)), map[string]interface{}{"bytes": l})
		}
		_ = os.Remove(fn)
	}
	// a "file" may be a named pipe or a device that hands its contents over in pieces (a Read returns fewer bytes
	// than asked for before the end): every listed way of cutting the contents into 1..3 pieces
	pipeRuns := 0
	type cut struct {
		l      int
		pieces []int
	}
	cuts := []cut{{2500, []int{2500}}, {2500, []int{1, 2499}}, {2500, []int{1500, 1000}}, {2500, []int{2499, 1}}, {2500, []int{512, 512, 1476}},
		{200000, []int{65536, 134464}}, {200000, []int{65537, 134463}}, {200000, []int{100000, 100000}}, {200000, []int{1, 65535, 134464}}, {125000, []int{124999, 1}}}
	for ci, c := range cuts {
		data := enum.FillerBytes(c.l, uint64(ctx.Seed)+uint64(ci)+900)
		fn := filepath.Join(dir, fmt.Sprintf("pipe%d", ci))
		if err := syscall.Mkfifo(fn, 0o600); err != nil {
			ctx.Note("named pipes are not available here (%v): the piecewise file family is skipped", err)
			break
		}
		wdone := make(chan struct{})
		go func() {
			defer close(wdone)
			w, err := os.OpenFile(fn, os.O_WRONLY, 0)
			if err != nil {
				return
			}
			defer w.Close()
			off := 0
			for pi, n := range c.pieces {
				if pi > 0 {
					time.Sleep(60 * time.Millisecond) // the reader has long consumed the previous piece
				}
				if _, err := w.Write(data[off : off+n]); err != nil {
					return // the reader closed early
				}
				off += n
			}
		}()
		type res struct {
			bits []bool
			pv   interface{}
		}
		rch := make(chan res, 1)
		go func() {
			var got []bool
			pv := common.Catch(func() { got = r.ReadGroup(fn) })
			rch <- res{got, pv}
		}()
		select {
		case x := <-rch:
			<-wdone
			pipeRuns++
			atomic.AddInt64(&evals, 1)
			if x.pv != nil || common.BitString(x.bits) != common.BitString(refmodel.Bits(data)) {
				ctx.Report("ReadGroup/pieces", fmt.Sprintf("ReadGroup of a named pipe delivering %d bytes in pieces %v yields %d bits, the expansion of the bytes has %d (panic=%v)", c.l, c.pieces, len(x.bits), 8*c.l, x.pv), map[string]interface{}{"bytes": c.l, "pieces": c.pieces})
			}
		case <-time.After(2 * time.Minute):
			ctx.Note("ReadGroup on a named pipe (%d bytes in pieces %v) has not returned after 2 minutes; skipped", c.l, c.pieces)
			// unblock both ends
			if f, err := os.OpenFile(fn, os.O_RDWR, 0); err == nil {
				f.Close()
			}
		}
		_ = os.Remove(fn)
	}
	samples = append(samples, map[string]interface{}{"family": "file loader over a named pipe", "runs": pipeRuns, "pieces": "2500 / 125000 / 200000 bytes cut into 1..3 pieces (cuts at 1, 512, 1500, 65535, 65536, 65537, 100000, len-1)"})
	for v := 0; v < 65536; v++ {
		d := []byte{byte(v >> 8), byte(v)}
		if common.BitString(r.B2bitArr(d)) != common.BitString(refmodel.Bits(d)) {
			ctx.Report("B2bitArr", fmt.Sprintf("B2bitArr(%x) is not the MSB-first expansion", d), nil)
			break
		}
		if v < 256 && r.B2Byte(r.B2bit(byte(v))) != byte(v) {
			ctx.Report("B2Byte", fmt.Sprintf("B2Byte(B2bit(%#x)) != %#x", v, v), nil)
		}
	}
	evals += 65536
	samples = append(samples, map[string]interface{}{"family": "file loader", "inputs": "files of every length 0..64 bytes, 125000, 125001; B2bitArr on every 2-byte string"})
	cov := common.Coverage{
		"evaluations":         int(evals),
		"distinct_nontrivial": distinct.Count(),
		"rule": "bytes vs bits bit-identical for every byte-oriented entry point x every documented parameter on every 1-,2-(3-)byte string, byte patterns repeated to 16/128/1121/2500 bytes and fillers to 125000 bytes; registry runners vs entry points with the standard's defaults bit-identical incl. Pass; registry order by name and by reference semantics; Round15/Round12 vs registry; ReadGroup on every file length 0..64, around 4096 / 32768 / 65536 / 131072 / 262144, 125000, 125001, and over a named pipe that delivers the contents in 1..3 pieces; " +
			"distinct = distinct (entry point pair, first P value) pairs",
		"samples":    samples,
		"exhaustive": true,
	}
	return ctx.Finish("exploration", cov, []string{"bit-identical means identical float64 bit patterns", "the DFT runner's semantics are compared in C05; here it is compared with its byte/bit twins and through Round15"})
}

func memAvailableGB() int {
	b, err := os.ReadFile("/proc/meminfo")
	if err != nil {
		return 0
	}
	for _, l := range strings.Split(string(b), "\n") {
		if strings.HasPrefix(l, "MemAvailable:") {
			var kb int
			fmt.Sscanf(strings.TrimSpace(strings.TrimPrefix(l, "MemAvailable:")), "%d", &kb)
			return kb / 1024 / 1024
		}
	}
	return 0
}
