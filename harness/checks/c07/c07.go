// Package c07: factory / power-on / periodic verdicts equal the GM/T decision rule (E3).
package c07

import (
	"fmt"
	"io"
	"math"
	"sort"
	"sync"
	"sync/atomic"

	"github.com/Trisia/randomness"
	"github.com/Trisia/randomness/detect"

	"verif/common"
	"verif/model"
	"verif/refmodel"
	"verif/seam"
	"verif/wf"
)

type job struct {
	w     *wf.WF
	sc    *seam.Scenario
	extra int // trailing samples (all-fail) after the s samples
	tail  int // further trailing bytes that do not make a sample
	desc  string
	sig   string
}

// binValue realises bin b; edge=true puts the value exactly on the lower edge of the bin.
func binValue(b int, edge bool) float64 {
	if edge {
		return [...]float64{0, 0.1, 0.2, 0.3, 0.4, 0.5, 0.6, 0.7, 0.8, 0.9}[b]
	}
	return (float64(b) + 0.5) / 10
}

// setHistogram makes item i's Q values realise the bin counts (counts[b] samples in bin b),
// filling samples in the given order.
func setHistogram(sc *seam.Scenario, item int, counts []int, edge bool, order []int) {
	k := 0
	for b, c := range counts {
		for j := 0; j < c; j++ {
			v := binValue(b, edge && j%3 == 0)
			if edge && j%3 == 1 && b < 9 {
				// the largest double below the bin's upper edge still belongs to bin b
				v = math.Nextafter(binValue(b+1, true), 0)
			}
			sc.Q[order[k]][item] = v
			k++
		}
	}
}

func identity(n int) []int {
	o := make([]int, n)
	for i := range o {
		o[i] = i
	}
	return o
}

func chi2(counts []int, s int) float64 {
	v := 0.0
	e := float64(s) / 10
	for b := 0; b < 10; b++ {
		c := 0.0
		if b < len(counts) {
			c = float64(counts[b])
		}
		v += (c - e) * (c - e) / e
	}
	return v
}

// arrange maps a partition (descending parts) to ten bin counts in one of three arrangements.
func arrange(p []int, how int) []int {
	c := make([]int, 10)
	for i, v := range p {
		switch how {
		case 0:
			c[i] = v
		case 1:
			c[9-i] = v
		default:
			c[(i*7+3)%10] = v
		}
	}
	return c
}

type runner struct {
	ctx    *common.Ctx
	evals  int64
	sigs   *common.Counter
	mu     sync.Mutex
	sample []interface{}
	pools  map[string]*sync.Pool
}

func (r *runner) pool(w *wf.WF, count int) *sync.Pool {
	r.mu.Lock()
	defer r.mu.Unlock()
	key := fmt.Sprint(w.Name, count)
	if p, ok := r.pools[key]; ok {
		return p
	}
	p := &sync.Pool{New: func() interface{} {
		tmp := seam.NewRun(seam.NewScenario("tmpl", 1))
		b := tmp.Stream(count, w.N)
		tmp.Close()
		return b
	}}
	r.pools[key] = p
	return p
}

// exec runs one workflow call under stubs and compares with the decision model.
func (r *runner) exec(j job) {
	w := j.w
	run := seam.NewRun(j.sc)
	defer run.Close()
	count := w.S + j.extra
	pool := r.pool(w, count)
	base := pool.Get().([]byte)
	defer pool.Put(base)
	run.PatchStream(base, count, w.N)
	data := base
	if j.tail > 0 {
		data = append(append([]byte{}, base...), make([]byte, j.tail)...)
	}
	// an earlier detection of the same kind that was ABORTED by its source (it ends after 1, s/2 or s-1 all-pass
	// samples) must leave nothing behind - counters, Q-values, buffers - that the judged call could inherit
	if k := descHash(j.desc) % 4; k > 0 {
		pre := []int{0, 1, w.S / 2, w.S - 1}[k]
		prun := seam.NewRun(seam.NewScenario("aborted-earlier-run", w.S))
		pdata := prun.Stream(pre, w.N)
		pv0, perr := w.Seq(&seam.Source{Data: append(pdata, 1, 2, 3)})
		prun.Close()
		if pv0 || perr == nil {
			r.ctx.Report(fmt.Sprintf("%s/aborted-run", w.Name), fmt.Sprintf("%s returned (%v, %v) on a stream that ends after %d samples and 3 bytes", w.Name, pv0, perr, pre), nil)
		}
		r.sigs.Add(fmt.Sprintf("after-aborted-run/%s/%d", w.Name, k))
	}
	src := &seam.Source{Data: data}
	// a stream that ends exactly after the s samples: in every second scenario the final Read reports
	// io.EOF together with its bytes (allowed by io.Reader), which must not change anything
	eofWith := j.extra == 0 && j.tail == 0 && descParity(j.desc)
	src.EOFWithData = eofWith
	var verdict bool
	var err error
	pv := common.Catch(func() { verdict, err = w.Seq(src) })
	atomic.AddInt64(&r.evals, 1)
	r.sigs.Add(j.sig)
	key := fmt.Sprintf("%s/%s", w.Name, j.desc)
	rep := map[string]interface{}{"workflow": w.Name, "scenario": j.desc, "extra_samples": j.extra, "tail_bytes": j.tail, "eof_with_last_bytes": eofWith}
	if eofWith {
		r.sigs.Add("eof-with-last-bytes/" + w.Name)
	}
	if pv != nil {
		r.ctx.Report(key+"/panic", fmt.Sprintf("%s panicked: %v", w.Name, pv), rep)
		return
	}
	d := model.Decide(j.sc.Pass, j.sc.Q, w.S, w.Items)
	// either-way items: accept both verdicts if they alone decide
	want := d.Verdict
	ambiguous := len(d.EitherWay) > 0 && d.Verdict
	if !ambiguous && verdict != want {
		r.ctx.Report(key+"/verdict", fmt.Sprintf("%s returned %v (err=%v), the decision rule gives %v (violating items %v)", w.Name, verdict, err, want, d.Violators), rep)
		return
	}
	if verdict && err != nil {
		r.ctx.Report(key+"/err-on-true", fmt.Sprintf("%s returned true with error %v", w.Name, err), rep)
	}
	if !verdict {
		if err == nil {
			r.ctx.Report(key+"/nil-err", fmt.Sprintf("%s returned false with a nil error", w.Name), rep)
		} else if it := seam.NamedItem(err); it < 0 {
			r.ctx.Report(key+"/unnamed", fmt.Sprintf("%s: error %q names no registry item", w.Name, err), rep)
		} else if _, bad := d.Violators[it]; !bad && !d.EitherWay[it] {
			r.ctx.Report(key+"/wrong-item", fmt.Sprintf("%s: error %q names item %d which violates no criterion (violators %v)", w.Name, err, it, d.Violators), rep)
		}
	}
	// F4: bytes consumed
	if src.Pos() != w.S*w.N {
		r.ctx.Report(key+"/consumed", fmt.Sprintf("%s consumed %d bytes, expected exactly %d", w.Name, src.Pos(), w.S*w.N), rep)
	}
	// F5: call log
	jd := run.Judged()
	if len(run.Torn) > 0 {
		r.ctx.Report(key+"/torn", fmt.Sprintf("%s handed a runner bytes that are not a stream sample: %v", w.Name, run.Torn), rep)
	}
	for i := 0; i < w.Items; i++ {
		got := jd[i]
		okSeq := len(got) == w.S
		for k := 0; okSeq && k < w.S; k++ {
			if got[k] != k {
				okSeq = false
			}
		}
		if !okSeq {
			r.ctx.Report(key+"/samples", fmt.Sprintf("%s: item %d judged samples %v, expected each of 0..%d once", w.Name, i, abbreviate(got), w.S-1), rep)
			break
		}
	}
	for _, c := range run.CallSeq() {
		if c.Sample >= 0 && c.Len != w.N {
			r.ctx.Report(key+"/size", fmt.Sprintf("%s: sample of %d bytes, expected %d", w.Name, c.Len, w.N), rep)
			break
		}
	}
	r.mu.Lock()
	if len(r.sample) < 6 && j.sc.Name != "" && len(d.Violators) > 0 {
		r.sample = append(r.sample, map[string]interface{}{"workflow": w.Name, "scenario": j.desc, "model_verdict": d.Verdict, "violators": fmt.Sprint(d.Violators), "returned": verdict, "error": fmt.Sprint(err)})
	}
	r.mu.Unlock()
}

func descHash(s string) int {
	h := 0
	for _, c := range []byte(s) {
		h = (h*131 + int(c)) & 0xffffff
	}
	return h >> 3
}

func descParity(s string) bool {
	h := 0
	for _, c := range []byte(s) {
		h = h*31 + int(c)
	}
	return h&1 == 1
}

func abbreviate(v []int) string {
	if len(v) > 24 {
		return fmt.Sprint(v[:24]) + "..."
	}
	return fmt.Sprint(v)
}

// failing sample positions for an arrangement
func failOrder(s, how int) []int {
	o := identity(s)
	switch how {
	case 1:
		for i, j := 0, s-1; i < j; i, j = i+1, j-1 {
			o[i], o[j] = o[j], o[i]
		}
	case 2:
		sort.Slice(o, func(a, b int) bool { return (o[a]*7)%s < (o[b]*7)%s })
	}
	return o
}

func Run(ctx *common.Ctx) int {
	r := &runner{ctx: ctx, sigs: common.NewCounter(), pools: map[string]*sync.Pool{}}
	var jobs []job
	quick := ctx.Quick()
	famCount := map[string]int{}
	add := func(fam string, j job) {
		famCount[fam]++
		jobs = append(jobs, j)
	}
	for wi := range wf.All {
		w := &wf.All[wi]
		s := w.S
		t := model.Threshold(s)
		// F0 baseline
		add("F0", job{w: w, sc: seam.NewScenario("all-pass", s), desc: "all-pass", sig: w.Name + "/all-pass"})
		// F1: every item x every pass count x three arrangements of the failing samples
		for i := 0; i < w.Items; i++ {
			for c := 0; c <= s; c++ {
				for how := 0; how < 3; how++ {
					if quick && how > 0 && (c < t-2 || c > t+1) {
						continue
					}
					sc := seam.NewScenario("F1", s)
					ord := failOrder(s, how)
					for f := 0; f < s-c; f++ {
						sc.Pass[ord[f]][i] = false
					}
					add("F1", job{w: w, sc: sc, desc: fmt.Sprintf("F1 item=%d pass=%d/%d arrangement=%d", i, c, s, how),
						sig: fmt.Sprintf("%s/i%d/c%d", w.Name, i, c)})
				}
			}
		}
		// F2: every item x histograms (partitions of s into <= 10 bin counts) x arrangements
		crit := 33.72
		type part struct {
			p   []int
			chi float64
		}
		var parts []part
		wf.Partitions(s, 10, func(p []int) {
			parts = append(parts, part{append([]int{}, p...), chi2(p, s)})
		})
		sort.Slice(parts, func(a, b int) bool { return math.Abs(parts[a].chi-crit) < math.Abs(parts[b].chi-crit) })
		for pi, pt := range parts {
			near := math.Abs(pt.chi-crit) <= 3
			var items []int
			var hows []int
			switch {
			case s == 20 || !quick && near:
				items = identity(w.Items)
				hows = []int{0, 1, 2}
			case !quick:
				items = []int{pi % w.Items}
				hows = []int{pi % 3}
			case pi < 60:
				items = identity(w.Items)
				hows = []int{pi % 3}
			case near:
				items = []int{pi % w.Items}
				hows = []int{pi % 3}
			case pi%97 == 0:
				items = []int{pi % w.Items}
				hows = []int{pi % 3}
			}
			if s == 20 && quick && !near && pi%5 != 0 {
				items = []int{pi % w.Items}
				hows = []int{pi % 3}
			}
			for _, i := range items {
				for _, how := range hows {
					sc := seam.NewScenario("F2", s)
					counts := arrange(pt.p, how)
					setHistogram(sc, i, counts, pi%2 == 0, failOrder(s, how))
					add("F2", job{w: w, sc: sc, desc: fmt.Sprintf("F2 item=%d bins=%v chi2=%.3f", i, counts, pt.chi),
						sig: fmt.Sprintf("%s/i%d/h%v", w.Name, i, pt.p)})
				}
			}
		}
		// F7: near-critical histograms in which the tolerated number of samples FAIL the item while their
		// Q-values lie in bins other than the first: the uniformity criterion is over all s Q-values
		f7 := 0
		for pi, pt := range parts {
			lim := 8.0
			if s == 50 {
				lim = 2.0
				if !quick {
					lim = 4.0
				}
			}
			if math.Abs(pt.chi-crit) > lim {
				continue
			}
			for how := 0; how < 2; how++ {
				counts := arrange(pt.p, how)
				for _, nfail := range []int{1, s - t} {
					if nfail < 1 || (nfail == 1 && s-t == 1 && how == 1) {
						continue
					}
					i := (pi + how + nfail) % w.Items
					sc := seam.NewScenario("F7", s)
					ord := identity(s)
					setHistogram(sc, i, counts, false, ord)
					// fail the samples that sit in the highest populated bin
					marked := 0
					for k := s - 1; k >= 0 && marked < nfail; k-- {
						if model.Bin(sc.Q[k][i]) >= 1 {
							sc.Pass[k][i] = false
							marked++
						}
					}
					if marked < nfail {
						continue
					}
					f7++
					add("F7", job{w: w, sc: sc, desc: fmt.Sprintf("F7 item=%d bins=%v chi2=%.3f with %d failing samples in the top bins", i, counts, pt.chi, nfail),
						sig: fmt.Sprintf("%s/f7/i%d/h%v/%d/%d", w.Name, i, pt.p, how, nfail)})
				}
			}
		}
		// F3: ordered pairs: item i fails criterion 1 (threshold-1), item j fails criterion 2; and both just fine
		for i := 0; i < w.Items; i++ {
			for j2 := 0; j2 < w.Items; j2++ {
				if i == j2 {
					continue
				}
				sc := seam.NewScenario("F3", s)
				for f := 0; f < s-(t-1); f++ {
					sc.Pass[f][i] = false
				}
				cnt := make([]int, 10)
				cnt[3] = s
				setHistogram(sc, j2, cnt, false, identity(s))
				add("F3", job{w: w, sc: sc, desc: fmt.Sprintf("F3 item %d at threshold-1, item %d all in one bin", i, j2), sig: fmt.Sprintf("%s/p%d-%d/bad", w.Name, i, j2)})
				sc2 := seam.NewScenario("F3", s)
				for f := 0; f < s-t; f++ {
					sc2.Pass[s-1-f][i] = false
				}
				add("F3", job{w: w, sc: sc2, desc: fmt.Sprintf("F3 item %d at threshold, item %d uniform", i, j2), sig: fmt.Sprintf("%s/p%d-%d/ok", w.Name, i, j2)})
			}
		}
		// items beyond the judged ones must not matter (periodic: items 12..14)
		for i := w.Items; i < 15; i++ {
			sc := seam.NewScenario("F6", s)
			for k := 0; k < s; k++ {
				sc.Pass[k][i] = false
				sc.Q[k][i] = 0
			}
			add("F6", job{w: w, sc: sc, desc: fmt.Sprintf("F6 unjudged item %d fails everywhere", i), sig: fmt.Sprintf("%s/u%d", w.Name, i)})
		}
		// F4: trailing bytes must not matter
		for _, ex := range []struct{ extra, tail int }{{0, 1}, {1, 0}, {3, 0}, {1, w.N - 1}} {
			sc := seam.NewScenario("F4", s)
			add("F4", job{w: w, sc: sc, extra: ex.extra, tail: ex.tail, desc: fmt.Sprintf("F4 all-pass followed by %d failing samples and %d bytes", ex.extra, ex.tail), sig: fmt.Sprintf("%s/t%d-%d", w.Name, ex.extra, ex.tail)})
			sc2 := seam.NewScenario("F4", s)
			for f := 0; f < s-t; f++ {
				sc2.Pass[f][0] = false
			}
			add("F4", job{w: w, sc: sc2, extra: ex.extra, tail: ex.tail, desc: fmt.Sprintf("F4 item 0 at threshold followed by %d failing samples and %d bytes", ex.extra, ex.tail), sig: fmt.Sprintf("%s/tt%d-%d", w.Name, ex.extra, ex.tail)})
		}
	}
	ctx.Printf("C07: %d stub scenarios %v\n", len(jobs), famCount)
	capped := false
	common.ParFor(len(jobs), func(i int) {
		if ctx.Expired() {
			capped = true
			return
		}
		r.exec(jobs[i])
	})
	seam.Restore()
	// real-runner end-to-end: the verdict must follow from the per-sample results of the round function
	e2e := 0
	realRun := func(w *wf.WF, round func([]byte) []*randomness.TestResult, seed uint64) {
		data := filler(w.S*w.N, seed)
		var verdict bool
		var err error
		pv := common.Catch(func() { verdict, err = w.Seq(&seam.Source{Data: data}) })
		e2e++
		if pv != nil {
			ctx.Report(w.Name+"/e2e/panic", fmt.Sprintf("%s panicked on filler seed %d: %v", w.Name, seed, pv), map[string]interface{}{"seed": seed})
			return
		}
		pass := make([][]bool, w.S)
		q := make([][]float64, w.S)
		for k := 0; k < w.S; k++ {
			res := round(data[k*w.N : (k+1)*w.N])
			pass[k] = make([]bool, 15)
			q[k] = make([]float64, 15)
			for i, tr := range res {
				pass[k][i], q[k][i] = tr.Pass, tr.Q
			}
		}
		d := model.Decide(pass, q, w.S, w.Items)
		if len(d.EitherWay) == 0 && d.Verdict != verdict {
			ctx.Report(w.Name+"/e2e/verdict", fmt.Sprintf("%s on filler seed %d returned %v (%v), rule on the real per-sample results gives %v %v", w.Name, seed, verdict, err, d.Verdict, d.Violators), map[string]interface{}{"seed": seed})
		}
		r.sample = append(r.sample, map[string]interface{}{"workflow": w.Name, "real_runners": true, "filler_seed": seed, "returned": verdict, "model": d.Verdict})
	}
	if !capped {
		realRun(wf.ByName("Period"), detect.Round12, uint64(ctx.Seed)+1)
		realRun(wf.ByName("Period"), detect.Round12, uint64(ctx.Seed)+2)
		if !quick {
			realRun(wf.ByName("PowerOn"), detect.Round15, uint64(ctx.Seed)+3)
		}
	}
	_ = io.EOF
	_ = refmodel.Phi
	cov := common.Coverage{
		"evaluations":         int(r.evals) + e2e,
		"distinct_nontrivial": r.sigs.Len() - 3,
		"rule": "every scenario is an s x 15 matrix of per-sample (Pass, Q) results fed to the real workflow through stub registry runners on a marker stream; " +
			"families F1 (every item x every pass count), F7 (near-critical histograms with the tolerated number of failing samples outside the first bin), F2 (every partition of s into <=10 bin counts; quick: all for s=20 items rotated, near-critical ones for s=50), F3 (ordered item pairs on both criteria), F4 (trailing bytes), F6 (unjudged items); " +
			"distinct = distinct (workflow, item, pass count | bin-count partition | pair | tail) signatures; the three all-pass baselines are the only trivial ones",
		"samples":          r.sample,
		"families":         famCount,
		"real_runner_runs": e2e,
		"exhaustive":       !capped,
		"bounds":           "s = 50/20/20 as fixed by the workflows; quick restricts F2 for s=50 to chi-square within 3 of the critical value 33.72 plus every 97th partition",
	}
	return ctx.Finish("exploration", cov, []string{
		"the fifteen tests are reached only through randomness.TestMethodArr (stub seam); the link bytes -> (P,Q,Pass) is C15/C16's subject",
		"oracle: exact integer threshold predicate and 192-bit Q(9/2, V/2) with exact rational chi-square; uniformity within 1e-12 of 0.0001 accepts either verdict",
	})
}

// filler is a fixed xorshift byte stream.
func filler(n int, seed uint64) []byte {
	x := seed*0x9E3779B97F4A7C15 + 0x1234567
	out := make([]byte, n)
	for i := range out {
		x ^= x << 13
		x ^= x >> 7
		x ^= x << 17
		out[i] = byte(x >> 32)
	}
	return out
}
