// Package c18: tests are pure: input untouched, deterministic, safe to call concurrently
// (E1 + explicit-state search over operation sequences, race pass).
package c18

import (
	"crypto/sha1"
	"encoding/json"
	"fmt"
	"math"
	"os"
	"runtime"
	"sort"
	"strings"
	"sync"
	"time"

	r "github.com/Trisia/randomness"
	"github.com/Trisia/randomness/detect"

	"verif/calls"
	"verif/checks/fast"
	"verif/common"
	"verif/e1"
	"verif/enum"
	"verif/explore"
	"verif/refmodel"
	"verif/vsched"
)

// Op is one operation of the alphabet: it takes the shared byte and bit views of an input.
type Op struct {
	Name string
	Min  int // bytes
	F    func(data []byte, bits []bool) []float64
}

func flat(res ...*r.TestResult) []float64 {
	var out []float64
	for _, t := range res {
		if t == nil {
			out = append(out, math.NaN())
			continue
		}
		p := 0.0
		if t.Pass {
			p = 1
		}
		out = append(out, t.P, t.Q, t.P2, t.Q2, p)
	}
	return out
}

// Ops returns the 17 registry-level operations followed by the parameterised entry points.
func Ops() []Op {
	var ops []Op
	for i := 0; i < 15; i++ {
		i := i
		min := 128
		if i == 13 {
			min = 1121
		}
		ops = append(ops, Op{fmt.Sprintf("runner%02d", i), min, func(d []byte, _ []bool) []float64 { return flat(r.TestMethodArr[i].Runner(d)) }})
	}
	ops = append(ops, Op{"Round15", 1121, func(d []byte, _ []bool) []float64 { return flat(detect.Round15(d)...) }})
	ops = append(ops, Op{"Round12", 128, func(d []byte, _ []bool) []float64 { return flat(detect.Round12(d)...) }})
	// the exported section-6 helpers (the uniformity statistic goes through the shared incomplete gamma code)
	ops = append(ops, Op{"ThresholdQ", 16, func(d []byte, _ []bool) []float64 {
		qs := make([]float64, 20)
		for i := range qs {
			qs[i] = float64(d[i%len(d)]) / 256
		}
		return []float64{detect.ThresholdQ(qs), float64(detect.Threshold(len(d)))}
	}})
	ops = append(ops, Op{"Igamc(1,.)", 1, func(d []byte, _ []bool) []float64 {
		return []float64{r.Igamc(1, 0.5+float64(d[0])/64), r.Igamc(3, 2.5)}
	}})
	ops = append(ops, Op{"Igamc(7.5,.)", 1, func(d []byte, _ []bool) []float64 {
		return []float64{r.Igamc(7.5, 6+float64(d[0])/64), r.Igamc(127.5, 120)}
	}})
	for _, c := range calls.All() {
		c := c
		if strings.Contains(c.Name, "m=5000") {
			continue
		}
		ops = append(ops, Op{c.Name, (c.Min + 7) / 8, func(_ []byte, b []bool) []float64 { return c.Impl(b) }})
	}
	ops = append(ops, Op{"DiscreteFourierTransformTest", 1, func(_ []byte, b []bool) []float64 { p, q := r.DiscreteFourierTransformTest(b); return []float64{p, q} }})
	return ops
}

// Inputs: byte strings chosen so that scratch contents of different calls differ
// (full-rank vs all-zero matrices, different FFT sizes, different run structure).
func Inputs(seed uint64) [][]byte {
	a := enum.FillerBytes(1121, seed+1)
	b := make([]byte, 1121) // all zero
	c := enum.FillerBytes(1121, seed+2)
	d := enum.FillerBytes(128, seed+3)
	for i := range c {
		if i%3 == 0 {
			c[i] |= 0x81
		}
	}
	// every input is a window of a larger buffer (spare capacity behind it, as a sample cut out of a
	// longer stream has): a callee that appends to its argument writes into the caller's memory
	out := [][]byte{a, b, c, d}
	for i, in := range out {
		back := make([]byte, len(in)+spare)
		copy(back, in)
		for k := len(in); k < len(back); k++ {
			back[k] = byte(0xA0 + k%7)
		}
		out[i] = back[:len(in)]
	}
	return out
}

const spare = 64

// bitsWindow expands bytes to bits inside a buffer with spare capacity.
func bitsWindow(data []byte) []bool {
	b := refmodel.Bits(data)
	back := make([]bool, len(b)+spare)
	copy(back, b)
	for k := len(b); k < len(back); k++ {
		back[k] = k%3 == 0
	}
	return back[:len(b)]
}

// sum and bitsSum hash the whole backing array, including the spare capacity behind the window.
func sum(b []byte) [20]byte { return sha1.Sum(b[:cap(b)]) }

func bitsSum(b []bool) [20]byte {
	b = b[:cap(b)]
	x := make([]byte, len(b))
	for i, v := range b {
		if v {
			x[i] = 1
		}
	}
	return sha1.Sum(x)
}

func same(a, b []float64) bool {
	if len(a) != len(b) {
		return false
	}
	for i := range a {
		if math.Float64bits(a[i]) != math.Float64bits(b[i]) && !(math.IsNaN(a[i]) && math.IsNaN(b[i])) {
			return false
		}
	}
	return true
}

// NRegistryOps is the number of registry-level operations at the head of Ops() (15 runners, two rounds, three section-6 helpers).
const NRegistryOps = 20

// PairsOf runs the concurrent exploration for all ordered pairs of the named operations (used by C12 for the
// uniformity statistic). It returns nil if the instrumented build fails.
func PairsOf(ctx *common.Ctx, names []string) (*e1.Merged, *e1.BuildInfo, error) {
	specs := []e1.PkgSpec{{Dir: "/repo", Touch: true}, {Dir: "/repo/fft", Touch: true}, {Dir: "/repo/detect", Touch: true}}
	pre, err := e1.Discover(ctx, specs)
	if err != nil {
		return nil, nil, err
	}
	pk := map[string]string{"/repo": "randomness", "/repo/fft": "fft", "/repo/detect": "detect"}
	for i := range specs {
		specs[i].Extra = map[string]string{"verif_dump.go": dumpFile(pk[specs[i].Dir], pre[specs[i].Dir])}
	}
	info, err := e1.Build(ctx, "purity", specs, "./cmd/runner", false, "verif_dump")
	if err != nil {
		return nil, nil, err
	}
	ops := Ops()
	var idx []int
	for _, n := range names {
		for i, o := range ops {
			if o.Name == n {
				idx = append(idx, i)
			}
		}
	}
	var pairs [][2]int
	for _, a := range idx {
		for _, b := range idx {
			pairs = append(pairs, [2]int{a, b})
		}
	}
	var tasks []e1.Task
	for _, shared := range []bool{true, false} {
		pp, _ := json.Marshal(Params{Mode: "conc", Pairs: pairs, Third: -1, Shared: shared, MaxTouches: 12})
		tasks = append(tasks, e1.Task{Check: "C18", Name: fmt.Sprintf("conc/shared=%v", shared), Params: pp, Bound: 2, NShards: 1})
	}
	third := idx[len(idx)-1]
	pp, _ := json.Marshal(Params{Mode: "conc", Pairs: pairs, Third: third, Shared: false, MaxTouches: 6})
	tasks = append(tasks, e1.Task{Check: "C18", Name: "conc3", Params: pp, Bound: 2, NShards: 1})
	return e1.RunTasks(ctx, info.Bin, tasks, 0, false), info, nil
}

// DumpState is set by the instrumented build (deep dump of every package-level variable).
var DumpState func() string

// Params of a sub-process task.
type Params struct {
	Mode       string   `json:"mode"` // seq | conc
	Pairs      [][2]int `json:"pairs,omitempty"`
	Third      int      `json:"third"` // >= 0: a third thread runs this op
	Shared     bool     `json:"shared"`
	MaxTouches int      `json:"max_touches"`
	// Big: the inputs are samples of the standard's sizes (10^6 bits, and 2^20 bits), where an implementation
	// may switch to a chunked / parallel / cached path; every op is first repeated alone, then paired with itself
	Big bool `json:"big,omitempty"`
}

// BigInputs: two different 10^6-bit samples and one of 2^20 bits, each a window of a larger buffer.
func BigInputs(seed uint64) [][]byte {
	a := enum.FillerBytes(125000, seed+11)
	b := enum.FillerBytes(125000, seed+12)
	for i := range b {
		if i%5 == 0 {
			b[i] |= 0x18
		}
	}
	c := enum.FillerBytes(131072, seed+13)
	out := [][]byte{a, b, c}
	for i, in := range out {
		back := make([]byte, len(in)+spare)
		copy(back, in)
		out[i] = back[:len(in)]
	}
	return out
}

// Handle is the sub-process entry (instrumented build).
func Handle(t e1.Task) (*e1.Result, map[uint64]struct{}) {
	start := time.Now()
	var p Params
	if err := json.Unmarshal(t.Params, &p); err != nil {
		return &e1.Result{Task: t, ToolError: err.Error()}, nil
	}
	ops := Ops()
	inputs := Inputs(1)
	if p.Big {
		inputs = BigInputs(1)
	}
	bitsIn := make([][]bool, len(inputs))
	for i := range inputs {
		bitsIn[i] = bitsWindow(inputs[i])
	}
	vsched.MaxTouches = p.MaxTouches
	if vsched.MaxTouches <= 0 {
		vsched.MaxTouches = 12
	}
	vsched.MaxTouchesPerSite = 2
	if p.Mode == "seq" {
		return seqSearch(t, ops, inputs, bitsIn, start)
	}
	// solitary results
	type key struct{ op, in int }
	solo := map[key][]float64{}
	tainted := false // a reference run left goroutines behind: a helper pool lives in this process
	get := func(op, in int) []float64 {
		k := key{op, in}
		if v, ok := solo[k]; ok {
			return v
		}
		var v []float64
		leaked, pv := explore.Controlled(func() { v = ops[op].F(inputs[in], bitsIn[in]) }, vsched.Options{NumCPU: 4, MaxSteps: 2000000})
		if leaked {
			tainted = true
		}
		if pv != "" {
			v = []float64{math.NaN()}
		}
		solo[k] = v
		return v
	}
	total := &e1.Result{Task: t, Outcomes: map[string]int{}, Signatures: map[string]int{}, Extra: map[string]int{}}
	states := map[uint64]struct{}{}
	for pi, pr := range p.Pairs {
		if t.Budget > 0 && time.Since(start).Seconds() > t.Budget {
			total.Capped = fmt.Sprintf("deadline after %d of %d pairs", pi, len(p.Pairs))
			break
		}
		opIdx := []int{pr[0], pr[1]}
		if p.Third >= 0 {
			opIdx = append(opIdx, p.Third)
		}
		inIdx := make([]int, len(opIdx))
		for k := range opIdx {
			if p.Shared {
				inIdx[k] = 0
			} else {
				inIdx[k] = k % 3 // distinct buffers with different contents
			}
			// respect minimum lengths
			for len(inputs[inIdx[k]]) < ops[opIdx[k]].Min {
				inIdx[k] = (inIdx[k] + 1) % len(inputs)
			}
		}
		want := make([][]float64, len(opIdx))
		for k := range opIdx {
			want[k] = get(opIdx[k], inIdx[k])
		}
		if p.Big {
			// repeated alone on the same data: bit-identical
			var again []float64
			_, pv := explore.Controlled(func() { again = ops[opIdx[0]].F(inputs[inIdx[0]], bitsIn[inIdx[0]]) }, vsched.Options{NumCPU: 4, MaxSteps: 2000000})
			if pv != "" || !same(again, want[0]) {
				total.Found = &explore.Found{Violation: fmt.Sprintf("%s on a %d-byte sample: the second call returned %v, the first %v (panic=%v)", ops[opIdx[0]].Name, len(inputs[inIdx[0]]), short(again), short(want[0]), pv)}
				break
			}
		}
		if tainted {
			total.Capped = explore.PersistentNote
			break
		}
		inSums := make([][20]byte, len(inputs))
		bitSums := make([][20]byte, len(inputs))
		for i := range inputs {
			inSums[i], bitSums[i] = sum(inputs[i]), bitsSum(bitsIn[i])
		}
		cfg := explore.Config{Name: t.Name, Bound: t.Bound, CostAll: t.CostAll, MaxExecs: t.MaxExec, Opt: vsched.Options{NumCPU: 4, Policy: t.Policy, MaxSteps: 200000}}
		if t.Budget > 0 {
			cfg.Deadline = start.Add(time.Duration(t.Budget * float64(time.Second)))
		}
		cfg.NewExec = func() (func(), func(*vsched.Exec) explore.Verdict) {
			got := make([][]float64, len(opIdx))
			body := func() {
				var wg vsched.WaitGroup
				wg.Add(len(opIdx))
				for k := range opIdx {
					k := k
					vsched.Go(func() {
						defer wg.Done()
						got[k] = ops[opIdx[k]].F(inputs[inIdx[k]], bitsIn[inIdx[k]])
					})
				}
				wg.Wait()
			}
			check := func(x *vsched.Exec) explore.Verdict {
				v := explore.Verdict{Signature: x.Outcome.String()}
				names := []string{}
				for k := range opIdx {
					names = append(names, fmt.Sprintf("%s(input %d)", ops[opIdx[k]].Name, inIdx[k]))
				}
				switch {
				case x.Outcome == vsched.OutPanic:
					v.Violation = fmt.Sprintf("concurrent %v: panic: %s", names, x.PanicVal)
				case x.Outcome != vsched.OutDone && x.Outcome != vsched.OutLeak:
					v.Violation = fmt.Sprintf("concurrent %v: %s %v", names, x.Outcome, x.Blocked)
				default:
					// helper goroutines that outlive the calls are not forbidden by this property
					v.Persistent = x.Outcome == vsched.OutLeak && !x.LeakFromOnce
					for k := range opIdx {
						if !same(got[k], want[k]) {
							v.Violation = fmt.Sprintf("concurrent %v: %s returned %v, alone it returns %v (%s)", names, names[k], short(got[k]), short(want[k]), firstDiff(got[k], want[k]))
							break
						}
					}
					for i := range inputs {
						if sum(inputs[i]) != inSums[i] || bitsSum(bitsIn[i]) != bitSums[i] {
							v.Violation = fmt.Sprintf("concurrent %v: input %d was modified", names, i)
						}
					}
				}
				return v
			}
			return body, check
		}
		st := explore.Explore(cfg)
		total.Execs += st.Execs
		total.Transitions += st.Transitions
		if st.MaxPoints > total.MaxPoints {
			total.MaxPoints, total.Sample = st.MaxPoints, st.SampleSched
		}
		if st.MaxThreads > total.MaxThreads {
			total.MaxThreads = st.MaxThreads
		}
		for k, v := range st.Outcomes {
			total.Outcomes[k] += v
		}
		for k, v := range st.Signatures {
			total.Signatures[k] += v
		}
		for h := range st.States {
			states[h^uint64(pi+1)*0x9E3779B97F4A7C15] = struct{}{}
		}
		if st.Capped != "" {
			total.Capped = st.Capped
		}
		if st.ToolError != "" {
			total.ToolError = st.ToolError
			break
		}
		if st.Found != nil {
			total.Found = st.Found
			break
		}
	}
	if len(total.Sample) > 64 {
		total.Sample = total.Sample[:64]
	}
	total.NStates = len(states)
	total.WallS = time.Since(start).Seconds()
	return total, states
}

func tailLog(l []string, n int) []string {
	if len(l) > n {
		return l[len(l)-n:]
	}
	return l
}

func firstDiff(a, b []float64) string {
	if len(a) != len(b) {
		return fmt.Sprintf("%d values instead of %d", len(a), len(b))
	}
	for i := range a {
		if math.Float64bits(a[i]) != math.Float64bits(b[i]) {
			return fmt.Sprintf("first difference at value %d: %v instead of %v", i, a[i], b[i])
		}
	}
	return "no difference"
}

func short(v []float64) []float64 {
	if len(v) > 6 {
		return v[:6]
	}
	return v
}

// seqSearch: breadth-first search over operation sequences; state = (dump of all package-level variables, input hashes).
func seqSearch(t e1.Task, ops []Op, inputs [][]byte, bitsIn [][]bool, start time.Time) (*e1.Result, map[uint64]struct{}) {
	res := &e1.Result{Task: t, Outcomes: map[string]int{}, Signatures: map[string]int{}, Extra: map[string]int{}}
	if DumpState == nil {
		res.ToolError = "no state dump in this build"
		return res, nil
	}
	stateKey := func() string {
		h := sha1.New()
		h.Write([]byte(DumpState()))
		for i := range inputs {
			s1, s2 := sum(inputs[i]), bitsSum(bitsIn[i])
			h.Write(s1[:])
			h.Write(s2[:])
		}
		return fmt.Sprintf("%x", h.Sum(nil))
	}
	type tr struct{ op, in int }
	var alphabet []tr
	for o := range ops {
		for i := range inputs {
			if len(inputs[i]) >= ops[o].Min {
				alphabet = append(alphabet, tr{o, i})
			}
		}
	}
	initial := stateKey()
	inSums := make([][20]byte, len(inputs))
	for i := range inputs {
		inSums[i] = sum(inputs[i])
	}
	bitSums := make([][20]byte, len(inputs))
	for i := range inputs {
		bitSums[i] = bitsSum(bitsIn[i])
	}
	// results in the initial state
	base := map[tr][]float64{}
	seen := map[string]bool{initial: true}
	transitions := 0
	apply := func(a tr) []float64 {
		var v []float64
		if pv := common.Catch(func() { v = ops[a.op].F(inputs[a.in], bitsIn[a.in]) }); pv != nil {
			v = []float64{math.NaN(), float64(len(fmt.Sprint(pv)))}
		}
		transitions++
		return v
	}
	violation := ""
	checkInputs := func(a tr) {
		for i := range inputs {
			if sum(inputs[i]) != inSums[i] || bitsSum(bitsIn[i]) != bitSums[i] {
				violation = fmt.Sprintf("%s(input %d) modified input %d", ops[a.op].Name, a.in, i)
				// restore so that the search can go on
				fresh := Inputs(1)[i]
				copy(inputs[i][:cap(inputs[i])], fresh[:cap(fresh)])
				fb := bitsWindow(inputs[i])
				copy(bitsIn[i][:cap(bitsIn[i])], fb[:cap(fb)])
			}
		}
	}
	for _, a := range alphabet {
		base[a] = apply(a)
		checkInputs(a)
		if violation != "" {
			break
		}
	}
	movers := map[tr]bool{}
	budgetLeft := func() bool { return t.Budget <= 0 || time.Since(start).Seconds() < t.Budget*0.6 }
	if violation == "" {
		// second pass from whatever state the first pass reached: every result must repeat bit for bit
		prev := stateKey()
		for _, a := range alphabet {
			v := apply(a)
			if !same(v, base[a]) {
				violation = fmt.Sprintf("%s(input %d) returned %v, then %v on the same data", ops[a.op].Name, a.in, short(base[a]), short(v))
				break
			}
			k := stateKey()
			if k != prev {
				movers[a] = true
			}
			if !seen[k] {
				seen[k] = true
			}
			prev = k
		}
		if len(seen) > 1 && len(movers) == 0 {
			// the state moved during the first pass only (a once-only cache): every operation that can move it is unknown; treat all cheap ones as movers
			for _, a := range alphabet {
				if a.in == len(inputs)-1 {
					movers[a] = true
				}
			}
		}
	}
	depth := 1
	capped := false
	if violation == "" && len(seen) > 1 {
		// some operation moves package state (a cache?): that alone is no alarm; check history-independence:
		// after every state-moving operation every operation must still return its initial-state result (depth 2),
		// and after every pair of state-moving operations too (depth 3)
		depth = 3
		var mv []tr
		for a := range movers {
			mv = append(mv, a)
		}
		sort.Slice(mv, func(i, j int) bool { return mv[i].op*16+mv[i].in < mv[j].op*16+mv[j].in })
		prefixes := [][]tr{}
		for _, a := range mv {
			prefixes = append(prefixes, []tr{a})
		}
		for _, a := range mv {
			for _, b := range mv {
				prefixes = append(prefixes, []tr{a, b})
			}
		}
	outer:
		for _, pf := range prefixes {
			for _, b := range alphabet {
				if !budgetLeft() {
					capped = true
					break outer
				}
				for _, a := range pf {
					apply(a)
				}
				v := apply(b)
				seen[stateKey()] = true
				if !same(v, base[b]) {
					violation = fmt.Sprintf("after %v, %s(input %d) returns %v instead of %v", names(ops, pf), ops[b.op].Name, b.in, short(v), short(base[b]))
					break outer
				}
				checkInputs(b)
				if violation != "" {
					break outer
				}
			}
		}
	}
	if capped {
		res.Capped = "deadline inside the depth-3 history-independence search"
	}
	res.Extra["state_moving_operations"] = len(movers)
	res.Execs = transitions
	res.Transitions = transitions
	res.NStates = len(seen)
	res.Extra["alphabet"] = len(alphabet)
	res.Extra["depth"] = depth
	res.Extra["package_state_bytes"] = len(DumpState())
	res.Signatures[fmt.Sprintf("reachable states %d", len(seen))] = 1
	if violation != "" {
		res.Found = &explore.Found{Violation: violation}
	}
	states := map[uint64]struct{}{}
	for k := range seen {
		var h uint64
		fmt.Sscanf(k[:16], "%x", &h)
		states[h] = struct{}{}
	}
	res.WallS = time.Since(start).Seconds()
	return res, states
}

func names(ops []Op, pf interface{}) string {
	return fmt.Sprintf("%v", pf)
}

// dumpFile generates the state-dump file for a package.
func dumpFile(pkgName string, vars []string) string {
	var sb strings.Builder
	fmt.Fprintf(&sb, "//go:build go1.18\n\npackage %s\n\nimport \"fmt\"\n\n// VerifDumpState renders every package-level variable (generated by /verif at check time).\nfunc VerifDumpState() string {\n\treturn fmt.Sprintf(\"%%#v\", []interface{}{", pkgName)
	for i, v := range vars {
		if i > 0 {
			sb.WriteString(", ")
		}
		sb.WriteString(v)
	}
	sb.WriteString("})\n}\n")
	return sb.String()
}

// Run is the parent side.
func Run(ctx *common.Ctx) int {
	quick := ctx.Quick()
	// discover package-level variables first (a throw-away instrumentation pass), then build with dump files
	specs := []e1.PkgSpec{{Dir: "/repo", Touch: true}, {Dir: "/repo/fft", Touch: true}, {Dir: "/repo/detect", Touch: true}}
	pre, err := e1.Discover(ctx, specs)
	if err != nil {
		ctx.Printf("C18: cannot analyse the packages: %v\n", err)
		return 2
	}
	names := map[string]string{"/repo": "randomness", "/repo/fft": "fft", "/repo/detect": "detect"}
	for i := range specs {
		specs[i].Extra = map[string]string{"verif_dump.go": dumpFile(names[specs[i].Dir], pre[specs[i].Dir])}
	}
	info, err := e1.Build(ctx, "purity", specs, "./cmd/runner", false, "verif_dump")
	if err != nil {
		ctx.Printf("C18: cannot build the instrumented runner: %v\n", err)
		return 2
	}
	ops := Ops()
	maxTouches := 16
	if !quick {
		maxTouches = 32
	}
	// race pass first: it is the deciding step for unsynchronised accesses and must never be cut by the deadline
	raceRuns := 0
	t0 := time.Now()
	raceBin, rerr := e1.BuildPlain(ctx, "runner-race", "./cmd/runner", true)
	if rerr != nil {
		ctx.Note("race build failed: %v", rerr)
	} else if ok, _ := racePass(ctx, raceBin); ok {
		raceRuns++
	}
	ctx.Printf("C18: race pass %.1fs\n", time.Since(t0).Seconds())
	var tasks []e1.Task
	p, _ := json.Marshal(Params{Mode: "seq", Third: -1})
	tasks = append(tasks, e1.Task{Check: "C18", Name: "c18/seq", Params: p, NShards: 1})
	// all ordered pairs of the 17 registry-level operations (and, in thorough, of every entry point), shared and distinct inputs
	nops := NRegistryOps
	if !quick {
		nops = len(ops)
	}
	var pairs [][2]int
	for a := 0; a < nops; a++ {
		for b := 0; b < nops; b++ {
			if a >= NRegistryOps && b >= NRegistryOps && (a+b)%3 != 0 {
				continue
			}
			pairs = append(pairs, [2]int{a, b})
		}
	}
	chunk := (len(pairs) + 23) / 24
	for _, shared := range []bool{true, false} {
		for c := 0; c*chunk < len(pairs); c++ {
			hi := (c + 1) * chunk
			if hi > len(pairs) {
				hi = len(pairs)
			}
			pp, _ := json.Marshal(Params{Mode: "conc", Pairs: pairs[c*chunk : hi], Third: -1, Shared: shared, MaxTouches: maxTouches})
			tasks = append(tasks, e1.Task{Check: "C18", Name: fmt.Sprintf("c18/conc/shared=%v/chunk%d", shared, c), Params: pp, Bound: 2, NShards: 1})
		}
	}
	// three threads: pairs of the heavy-scratch operations plus a third one
	var trip [][2]int
	for _, a := range []int{6, 9, 12, 14, 15, 16} {
		for _, b := range []int{6, 9, 14, 16} {
			trip = append(trip, [2]int{a, b})
		}
	}
	for _, third := range []int{9, 14} {
		pp, _ := json.Marshal(Params{Mode: "conc", Pairs: trip, Third: third, Shared: third == 9, MaxTouches: maxTouches / 2})
		b3 := 1
		if !quick {
			b3 = 2
		}
		for c := 0; c < 4; c++ {
			pp, _ = json.Marshal(Params{Mode: "conc", Pairs: trip[c*len(trip)/4 : (c+1)*len(trip)/4], Third: third, Shared: third == 9, MaxTouches: maxTouches / 2})
			tasks = append(tasks, e1.Task{Check: "C18", Name: fmt.Sprintf("c18/conc3/third=%d/chunk%d", third, c), Params: pp, Bound: b3, NShards: 1})
		}
	}
	// samples of the standard's sizes: each registry runner repeated alone and paired with itself on two different
	// 10^6-bit samples and on the same one (quick: without linear complexity, 1 s per call; thorough: all, and the rounds)
	for a := 0; a < NRegistryOps; a++ {
		if quick && (a == 12 || a == 15 || a == 16) {
			continue
		}
		for _, shared := range []bool{false, true} {
			if shared && (quick || a == 12 || a == 15) {
				continue
			}
			pp, _ := json.Marshal(Params{Mode: "conc", Pairs: [][2]int{{a, a}}, Third: -1, Shared: shared, MaxTouches: 8, Big: true})
			tasks = append(tasks, e1.Task{Check: "C18", Name: fmt.Sprintf("c18/big/%s/shared=%v", ops[a].Name, shared), Params: pp, Bound: 1, NShards: 1})
		}
	}
	if info.Counts["go"] > 0 || info.Counts["make chan"] > 0 || info.Counts["send"] > 0 {
		// the libraries start goroutines / use channels (helper pools, parallel fast paths): blocking points abound and
		// a pure preemption bound no longer bounds anything; every non-default decision counts (deviation bound), and the
		// least-recently-run default policy is added so that overlapping calls are reached without deviations
		var more []e1.Task
		for i := range tasks {
			if tasks[i].Name != "c18/seq" {
				tasks[i].CostAll = true
				t2 := tasks[i]
				t2.Policy = 2
				t2.Name += "/p2"
				more = append(more, t2)
			}
		}
		tasks = append(tasks, more...)
	}
	for i := range tasks {
		tasks[i].W = 4 // package initialisation (VSCHED_NUMCPU) sees the CPU count the executions use
	}
	ctx.Printf("C18: %d tasks; package-level variables %v; touches inserted %d\n", len(tasks), pre, info.Counts["touch"])
	m := e1.RunTasks(ctx, info.Bin, tasks, 0, false)
	var samples []interface{}
	for _, res := range m.Results {
		if res.Found != nil {
			key := res.Task.Name
			v := res.Found.Violation
			// one finding per operation named first in the message
			k2 := "purity"
			if i := strings.Index(v, "runner"); i >= 0 && i+8 <= len(v) {
				k2 = v[i : i+8]
			} else if f := strings.Fields(v); len(f) > 1 {
				k2 = f[0] + " " + f[1]
			}
			ctx.Report(strings.Split(key, "/chunk")[0]+"/"+k2, v, map[string]interface{}{"task": res.Task.Name, "choices": res.Found.Choices, "outcome": res.Found.Outcome, "blocked": res.Found.Blocked, "log_tail": tailLog(res.Found.Log, 160)})
		}
		if res.Task.Name == "c18/seq" {
			samples = append(samples, map[string]interface{}{"task": "sequential state search", "reachable_states": res.NStates, "transitions": res.Transitions, "alphabet(op x input)": res.Extra["alphabet"], "depth": res.Extra["depth"], "package_state_dump_bytes": res.Extra["package_state_bytes"]})
		} else if len(samples) < 5 && res.Execs > 1 {
			samples = append(samples, map[string]interface{}{"task": res.Task.Name, "executions": res.Execs, "schedule_choice_vector(prefix)": res.Sample, "outcomes": res.Outcomes})
		}
	}
	for _, e := range m.ToolErrors {
		ctx.Note("tool error (not a violation): %s", e)
	}
	syncFree := info.Counts["go"] == 0 // informational only
	sigs := []string{}
	for k := range m.Signatures {
		sigs = append(sigs, k)
	}
	sort.Strings(sigs)
	cov := common.Coverage{
		"states":                        maxInt(len(m.States), 1),
		"transitions":                   maxInt(m.Transitions, 1),
		"traces_validated_against_impl": m.Execs,
		"evaluations":                   m.Execs,
		"distinct_nontrivial":           maxInt(len(pairs), 2),
		"samples":                       samples,
		"rule": "sequential: breadth-first search over operation sequences; state = deep dump of every package-level variable of randomness, fft and detect (list generated from the AST at check time) plus hashes of the shared inputs; every operation must repeat its initial-state result bit for bit and leave the inputs unchanged (depth 1 closes the search when every operation is a self-loop, depth 3 otherwise); " +
			"concurrent: 2 (3) controlled threads, one call each, all ordered pairs of the 17 registry-level operations (thorough: all entry points) on a shared and on distinct buffers, every schedule with <= 2 preemptions at the instrumented points (synchronisation operations and accesses to package-level variables); each result must equal its solitary result; the same for every registry runner paired with itself on 10^6-bit samples (<= 1 preemption); race pass: every ordered pair and a 64-goroutine mix free-running under -race, and every entry point (bit- and byte-level calls included) three at once and with its table neighbour on one shared buffer, and sixteen goroutines running the same registry operation on six different inputs (results compared with the solitary ones)",
		"package_level_variables":     pre,
		"touch_points_inserted":       info.Counts["touch"],
		"max_touch_points_per_thread": maxTouches,
		"instrumentation":             info.Counts,
		"ordered_pairs":               len(pairs),
		"outcome_signatures":          sigs,
		"tasks":                       len(m.Results),
		"caps_hit":                    m.Capped,
		"tool_errors":                 m.ToolErrors,
		"race_pass_runs":              raceRuns,
		"no_go_statements_in_libs":    syncFree,
		"exhaustive":                  len(m.Capped) == 0 && len(m.ToolErrors) == 0,
	}
	return ctx.Finish("model_checking", cov, []string{
		"scheduling points are the synchronisation operations and the statements that mention a package-level variable (first 64 per thread); accesses to function-local state cannot be shared between calls",
		"data races are decided by the race detector on free-running executions of every ordered pair; for code without synchronisation the happens-before relation between two concurrent calls is empty in every schedule, so the racing pairs do not depend on the schedule",
	})
}

func maxInt(a, b int) int {
	if a > b {
		return a
	}
	return b
}

// raceShared: every entry point (registry runners, rounds, every bit- and byte-level call) runs three times at once
// on ONE shared byte buffer / bit slice, then paired with its neighbour in the table on that same data. A callee
// that writes to its input even temporarily races with its twin; results must equal the solitary ones bit for bit
// (a mismatch is printed as a DATA RACE line so that the parent reports it).
func raceShared() int {
	ops := Ops()
	inputs := Inputs(1)
	bitsIn := make([][]bool, len(inputs))
	for i := range inputs {
		bitsIn[i] = bitsWindow(inputs[i])
	}
	in := 0
	solo := make([][]float64, len(ops))
	for o := range ops {
		if len(inputs[in]) < ops[o].Min {
			continue
		}
		solo[o] = ops[o].F(inputs[in], bitsIn[in])
	}
	bad := 0
	run := func(list []int) {
		var wg sync.WaitGroup
		got := make([][]float64, len(list))
		for k, o := range list {
			k, o := k, o
			wg.Add(1)
			go func() { defer wg.Done(); got[k] = ops[o].F(inputs[in], bitsIn[in]) }()
		}
		wg.Wait()
		for k, o := range list {
			if !same(got[k], solo[o]) && bad < 3 {
				bad++
				fmt.Fprintf(os.Stderr, "WARNING: DATA RACE (observed through results): %s called concurrently with %v on the same data returned %v, alone it returns %v\n", ops[o].Name, list, short(got[k]), short(solo[o]))
			}
		}
	}
	for o := range ops {
		if solo[o] == nil {
			continue
		}
		run([]int{o, o, o})
		n := (o + 1) % len(ops)
		if solo[n] != nil {
			run([]int{o, n, o})
		}
	}
	return 0
}

// raceStorm: sixteen goroutines at once run the SAME registry operation on six DIFFERENT inputs (and a second wave
// right behind the first): helper goroutines, pools or caches shared between calls must not hand one call's
// result to another. Results must equal the solitary ones bit for bit.
func raceStorm() int {
	ops := Ops()[:NRegistryOps]
	inputs := append(Inputs(1), enum.FillerBytes(2500, 77), enum.FillerBytes(4200, 78))
	bitsIn := make([][]bool, len(inputs))
	for i := range inputs {
		bitsIn[i] = bitsWindow(inputs[i])
	}
	bad := 0
	for o := range ops {
		solo := make([][]float64, len(inputs))
		for i := range inputs {
			if len(inputs[i]) >= ops[o].Min {
				solo[i] = ops[o].F(inputs[i], bitsIn[i])
			}
		}
		for wave := 0; wave < 3; wave++ {
			ng := 16
			if wave == 2 {
				ng = 40 // more distinct buffers in flight than any per-CPU table of the library can hold
			}
			var wg sync.WaitGroup
			got := make([][]float64, ng)
			which := make([]int, ng)
			for g := 0; g < ng; g++ {
				i := (g + wave) % len(inputs)
				for solo[i] == nil {
					i = (i + 1) % len(inputs)
				}
				g, i := g, i
				which[g] = i
				wg.Add(1)
				in, inBits := inputs[i], bitsIn[i]
				if wave == 2 {
					// every goroutine its own copy of the data: same contents, distinct buffers
					in = append(make([]byte, 0, len(in)+spare), in...)
					inBits = append(make([]bool, 0, len(inBits)+spare), inBits...)
				}
				go func() { defer wg.Done(); got[g] = ops[o].F(in, inBits) }()
			}
			wg.Wait()
			for g := range got {
				if !same(got[g], solo[which[g]]) && bad < 3 {
					bad++
					fmt.Fprintf(os.Stderr, "WARNING: DATA RACE (observed through results): %s called by 16 goroutines at once on different inputs returned %v for input %d, alone it returns %v\n", ops[o].Name, short(got[g]), which[g], short(solo[which[g]]))
				}
			}
		}
	}
	// the same with samples of the standard's size (10^6 bits), where a chunked or parallel path may take over:
	// eight goroutines, two different samples (without linear complexity and the rounds: a second per call)
	big := BigInputs(1)[:2]
	bigBits := [][]bool{bitsWindow(big[0]), bitsWindow(big[1])}
	for o := range ops {
		if o == 12 || o == 15 || o == 16 {
			continue
		}
		solo := [][]float64{ops[o].F(big[0], bigBits[0]), ops[o].F(big[1], bigBits[1])}
		var wg sync.WaitGroup
		got := make([][]float64, 8)
		for g := 0; g < 8; g++ {
			g := g
			wg.Add(1)
			go func() { defer wg.Done(); got[g] = ops[o].F(big[g%2], bigBits[g%2]) }()
		}
		wg.Wait()
		for g := range got {
			if !same(got[g], solo[g%2]) && bad < 6 {
				bad++
				fmt.Fprintf(os.Stderr, "WARNING: DATA RACE (observed through results): %s called by 8 goroutines at once on 10^6-bit samples returned %v, alone it returns %v (%s)\n", ops[o].Name, short(got[g]), short(solo[g%2]), firstDiff(got[g], solo[g%2]))
			}
		}
	}
	return 0
}

// racePass runs the C18-race sub-command of the -race runner.
func racePass(ctx *common.Ctx, bin string) (bool, int) {
	okAll := true
	total := 0
	var mu sync.Mutex
	// one fresh process per operation (cold package state), plus the 64-goroutine mix
	common.ParFor(NRegistryOps+3, func(k int) {
		op := k
		if k >= NRegistryOps {
			op = NRegistryOps - 1 - k // -1: the 64-goroutine mix, -2: every entry point on shared data, -3: same-operation storms
		}
		ok, n := fast.RacePass(ctx, bin, []string{"C18-race", "--tier", ctx.Tier, "--work", ctx.Work, "--gomaxprocs", fmt.Sprint(op)}, fmt.Sprintf("race/op%d", op))
		mu.Lock()
		okAll = okAll && ok
		total += n
		mu.Unlock()
	})
	return okAll, total
}

// Race is the body of the free-running -race pass. With cold >= 0 it is one fresh process for
// operation `cold`: first that operation concurrently on inputs of four different sizes (nothing has
// warmed any lazily built package-level state yet), then every ordered pair with it; with cold < 0 a
// 64-goroutine mix.
func Race(ctx *common.Ctx, cold int) int {
	runtime.GOMAXPROCS(16)
	if cold == -2 {
		return raceShared()
	}
	if cold == -3 {
		return raceStorm()
	}
	ops := Ops()[:NRegistryOps]
	inputs := append(Inputs(1), enum.FillerBytes(2500, 77), enum.FillerBytes(4200, 78))
	bitsIn := make([][]bool, len(inputs))
	for i := range inputs {
		bitsIn[i] = bitsWindow(inputs[i])
	}
	pick := func(o, pref int) int {
		for len(inputs[pref]) < ops[o].Min {
			pref = (pref + 1) % len(inputs)
		}
		return pref
	}
	if cold >= 0 && cold < len(ops) {
		var wg sync.WaitGroup
		for _, in := range []int{0, 3, 4, 5, 1, 4} {
			in := pick(cold, in)
			wg.Add(1)
			go func() { defer wg.Done(); ops[cold].F(inputs[in], bitsIn[in]) }()
		}
		wg.Wait()
		for b := range ops {
			for _, ord := range [][2]int{{cold, b}, {b, cold}} {
				wg.Add(2)
				ia, ib := pick(ord[0], 0), pick(ord[1], 4)
				go func() { defer wg.Done(); ops[ord[0]].F(inputs[ia], bitsIn[ia]) }()
				go func() { defer wg.Done(); ops[ord[1]].F(inputs[ib], bitsIn[ib]) }()
				wg.Wait()
			}
		}
		return 0
	}
	var wg sync.WaitGroup
	for g := 0; g < 64; g++ {
		g := g
		wg.Add(1)
		go func() {
			defer wg.Done()
			o := g % len(ops)
			i := pick(o, g%len(inputs))
			ops[o].F(inputs[i], bitsIn[i])
		}()
	}
	wg.Wait()
	return 0
}
