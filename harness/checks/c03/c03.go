// Package c03: binary derivative, autocorrelation and cumulative sums return the standard-defined values (E2).
package c03

import (
	"fmt"
	"sync/atomic"

	r "github.com/Trisia/randomness"

	"verif/calls"
	"verif/common"
	"verif/e2"
	"verif/enum"
	"verif/refmodel"
)

func Run(ctx *common.Ctx) int {
	cmp := enum.NewCmp(ctx, 1e-8)
	quick := ctx.Quick()
	exhaustive := true
	all := calls.ByGroup("C03")
	d := e2.New(cmp, all)
	var auto32, cus []calls.Call
	for _, c := range all {
		if c.Name == "AutocorrelationProto(d=32)" {
			auto32 = append(auto32, c)
		}
		if c.Name == "CumulativeTest(forward)" || c.Name == "CumulativeTest(backward)" {
			cus = append(cus, c)
		}
	}
	dA32 := e2.New(cmp, auto32)
	dCus := e2.New(cmp, cus)
	// S1: every bit string n = 1..18 (thorough ..23): each call from its own minimum length upward
	maxN := 20
	if !quick {
		maxN = 24
	}
	for n := 1; n <= maxN; n++ {
		if ctx.Expired() {
			exhaustive = false
			break
		}
		d.Strings(n)
	}
	cmp.Sample(map[string]interface{}{"family": "S1 all strings", "lengths": fmt.Sprintf("1..%d", maxN), "calls": d.Names()})
	// autocorrelation d=32 at n = 33..40: every assignment of the bits A(32) can read, the others filled three ways
	var aEvals int64
	for n := 33; n <= 40; n++ {
		w := n - 32 // positions 0..w-1 and 32..32+w-1 are read
		total := 1 << uint(2*w)
		common.ParFor(total, func(v int) {
			local := 0
			for fill := 0; fill < 3; fill++ {
				bits := make([]bool, n)
				for i := range bits {
					switch fill {
					case 1:
						bits[i] = true
					case 2:
						bits[i] = i%2 == 0
					}
				}
				for i := 0; i < w; i++ {
					bits[i] = v>>uint(i)&1 == 1
					bits[32+i] = v>>uint(w+i)&1 == 1
				}
				local += dA32.One(bits, func() interface{} { return map[string]interface{}{"n": n, "bits": common.BitString(bits)} })
			}
			atomic.AddInt64(&aEvals, int64(local))
		})
	}
	cmp.Count("autocorrelation d=32, n=33..40: all assignments of the readable bits x 3 fillings of the rest", aEvals)
	// cumulative sums: every reachable (n, z): climb to +-z, then oscillate; both directions via the reversed sequence
	ns := []int{100, 101, 128, 1000}
	if !quick {
		ns = append(ns, 20000)
	}
	var cEvals int64
	for _, n := range ns {
		common.ParFor(n, func(zi int) {
			z := zi + 1
			local := 0
			for _, up := range []bool{true, false} {
				bits := make([]bool, n)
				for i := 0; i < n; i++ {
					if i < z {
						bits[i] = up
					} else {
						bits[i] = (i-z)%2 == 1 == up
					}
				}
				rev := make([]bool, n)
				for i := range bits {
					rev[n-1-i] = bits[i]
				}
				desc := func(rv bool) func() interface{} {
					return func() interface{} {
						return map[string]interface{}{"n": n, "max_excursion_z": z, "climb_up": up, "reversed": rv}
					}
				}
				local += dCus.One(bits, desc(false))
				local += dCus.One(rev, desc(true))
			}
			atomic.AddInt64(&cEvals, int64(local))
		})
	}
	cmp.Count("cumulative sums: every excursion z=1..n at each n, both signs, both directions", cEvals)
	cmp.Sample(map[string]interface{}{"family": "cumulative sums (n,z) space", "n": ns, "example": "n=101: 37 ones, then 0101... (z = 37), forward and backward, and the complemented walk"})
	// S2
	specs := []e2.LenSpec{{N: 100, MaxBase: 8}, {N: 128, MaxBase: 8}, {N: 1000, MaxBase: 7}, {N: 20000, MaxBase: 4}}
	if !quick {
		specs = []e2.LenSpec{{N: 100, MaxBase: 8}, {N: 128, MaxBase: 8}, {N: 1000, MaxBase: 8}, {N: 20000, MaxBase: 7}, {N: 1000000, MaxBase: 2}}
	}
	ev, ok := d.S2(ctx, specs, !quick, 1100, func(n int) []int { return []int{32} })
	cmp.Count("S2 periodic patterns with bit flips", ev)
	exhaustive = exhaustive && ok
	// byte-oriented entry points against the reference on the MSB-first expansion: every 1- and 2-byte string,
	// fillers of 3..64, 125, 128, 1121, 2500 bytes
	var bEvals int64
	byteCheck := func(data []byte, desc func() interface{}) {
		bits := refmodel.Bits(data)
		chk := func(name string, f func() (float64, float64), wp, wq float64) {
			var p, q float64
			atomic.AddInt64(&bEvals, 1)
			if pv := common.Catch(func() { p, q = f() }); pv != nil {
				cmp.Panic(name, pv, desc())
				return
			}
			cmp.PQ(name, uint64(len(name)), p, q, wp, wq, desc)
		}
		for _, fw := range []bool{true, false} {
			fw := fw
			wp, wq := refmodel.Cusum(bits, fw)
			chk(fmt.Sprintf("CumulativeTestBytes(forward=%v)", fw), func() (float64, float64) { return r.CumulativeTestBytes(data, fw) }, wp, wq)
		}
		for _, k := range []int{3, 7, 15} {
			k := k
			if len(bits) >= 8 && len(bits) > k {
				wp, wq := refmodel.BinaryDerivative(bits, k)
				chk(fmt.Sprintf("BinaryDerivativeTestBytes(k=%d)", k), func() (float64, float64) { return r.BinaryDerivativeTestBytes(data, k) }, wp, wq)
			}
		}
		for _, dd := range []int{1, 2, 8, 16, 32} {
			dd := dd
			if len(bits) >= 16 && len(bits) > dd {
				wp, wq := refmodel.Autocorrelation(bits, dd)
				chk(fmt.Sprintf("AutocorrelationTestBytes(d=%d)", dd), func() (float64, float64) { return r.AutocorrelationTestBytes(data, dd) }, wp, wq)
			}
		}
	}
	common.ParFor(256, func(hi int) {
		byteCheck([]byte{byte(hi)}, func() interface{} { return map[string]interface{}{"bytes": fmt.Sprintf("%02x", hi)} })
		for lo := 0; lo < 256; lo++ {
			d2 := []byte{byte(hi), byte(lo)}
			byteCheck(d2, func() interface{} { return map[string]interface{}{"bytes": fmt.Sprintf("%x", d2)} })
		}
	})
	var blens []int
	for l := 3; l <= 64; l++ {
		blens = append(blens, l)
	}
	blens = append(blens, 125, 128, 1121, 2500)
	common.ParFor(len(blens)*8, func(i int) {
		L, k := blens[i/8], i%8
		data := enum.FillerBytes(L, uint64(ctx.Seed)+uint64(L*8+k))
		if k >= 4 {
			// a walk that hovers around zero: small excursions on both sides
			for j := range data {
				data[j] = []byte{0xAB, 0x03, 0xCC, 0x35, 0xA6, 0x59}[(j+k)%6]
			}
			data[L/2] ^= byte(1 << uint(k))
		}
		byteCheck(data, func() interface{} {
			return map[string]interface{}{"bytes": L, "seed": ctx.Seed + int64(L*8+k), "hovering": k >= 4}
		})
	})
	cmp.Count("byte entry points (cumulative sums, binary derivative, autocorrelation): every 1-,2-byte string; fillers and hovering walks of 3..64, 125, 128, 1121, 2500 bytes", bEvals)
	fev, fok := d.Fillers(ctx, e2.WordLengths(1000, 20000, 20032), 3, uint64(ctx.Seed))
	cmp.Count("fillers and biased fillers at every n in 33..200, around powers of two, 1000, 20000", fev)
	exhaustive = exhaustive && fok
	cov := cmp.Coverage("S1: every bit string n=1.."+fmt.Sprint(maxN)+" x {binary derivative k=3,7,15; autocorrelation d=1,2,8,16,32; cumulative sums forward/backward}, each from the function's own minimum length; "+
		"autocorrelation d=32 at n=33..40: all assignments of the readable bits; cumulative sums: every excursion z in 1..n at the listed n; S2 periodic patterns with <=1(2) flips; distinct = distinct (call, reference P) pairs with 0<P<1", exhaustive, nil)
	return ctx.Finish("exploration", cov, []string{"oracle: refmodel; cumulative-sums limits taken over the reals as the standard writes them", "tolerance 1e-8"})
}
