// Package c20: the sample generator writes the requested files where it was told to (E1 + end-to-end).
package c20

import (
	"bytes"
	"crypto/rand"
	"encoding/json"
	"flag"
	"fmt"
	"io"
	"os"
	"os/exec"
	"path/filepath"
	"sort"
	"strings"
	"time"

	"verif/common"
	"verif/e1"
	"verif/explore"
	"verif/vsched"
)

// Hooks are handed over by the generated main of the instrumented rdgen binary.
type Hooks struct {
	Main func() // the tool's own main, renamed by the instrumenter
}

// Params of one exploration.
type Params struct {
	S      int    `json:"s"`
	N      int    `json:"n"`
	Output string `json:"output"` // "", "rel", "nested/a/b", "abs", "existing"
}

const defaultDir = "target/data" // the documented default (README / usage text)

// detReader replaces crypto/rand.Reader: deterministic, every Read returns fresh, never-repeating bytes,
// and is a scheduling point.
type detReader struct{ calls uint32 }

func (d *detReader) Read(p []byte) (int, error) {
	vsched.Yield("rand-read")
	d.calls++
	for i := range p {
		p[i] = byte(uint32(i)*2654435761>>13) ^ byte(d.calls*151)
	}
	if len(p) >= 4 {
		p[0], p[1], p[2], p[3] = byte(d.calls>>24), byte(d.calls>>16), byte(d.calls>>8), byte(d.calls)
	}
	vsched.Observe("rand", uint64(d.calls))
	return len(p), nil
}

// snapshot of a directory tree: relative path -> content (files) or "<dir>".
func snapshot(root string) map[string]string {
	out := map[string]string{}
	_ = filepath.Walk(root, func(p string, info os.FileInfo, err error) error {
		if err != nil || p == root {
			return nil
		}
		rel, _ := filepath.Rel(root, p)
		if info.IsDir() {
			out[rel] = "<dir>"
			return nil
		}
		b, _ := os.ReadFile(p)
		out[rel] = string(b)
		return nil
	})
	return out
}

// judge checks the file system against the property; returns "" or the violation.
func judge(snap map[string]string, wantDir string, s, n int) string {
	var files []string
	for p, c := range snap {
		if c != "<dir>" {
			files = append(files, p)
		}
	}
	sort.Strings(files)
	want := map[string]bool{}
	for i := 0; i < s; i++ {
		want[filepath.Join(wantDir, fmt.Sprintf("random%d.bin", i))] = true
	}
	var missing, stray []string
	for w := range want {
		if _, ok := snap[w]; !ok {
			missing = append(missing, w)
		}
	}
	for _, f := range files {
		if !want[f] {
			stray = append(stray, f)
		}
	}
	sort.Strings(missing)
	sort.Strings(stray)
	if len(missing) > 0 || len(stray) > 0 {
		return fmt.Sprintf("expected exactly random0.bin..random%d.bin inside %q; missing %v, found elsewhere %v", s-1, wantDir, head(missing), head(stray))
	}
	seen := map[string]string{}
	for _, f := range files {
		c := snap[f]
		if len(c) != n/8 {
			return fmt.Sprintf("%s has %d bytes, expected %d", f, len(c), n/8)
		}
		if o, dup := seen[c]; dup {
			return fmt.Sprintf("%s and %s have identical contents", o, f)
		}
		seen[c] = f
	}
	return ""
}

func head(v []string) []string {
	if len(v) > 4 {
		return append(v[:4:4], "...")
	}
	return v
}

// SubMain is called by the generated main of the instrumented binary.
func SubMain(h Hooks) {
	e1.SubMain(map[string]e1.Handler{"C20": func(t e1.Task) (*e1.Result, map[uint64]struct{}) { return handle(h, t) }})
}

func handle(h Hooks, t e1.Task) (*e1.Result, map[uint64]struct{}) {
	start := time.Now()
	var p Params
	if err := json.Unmarshal(t.Params, &p); err != nil {
		return &e1.Result{Task: t, ToolError: err.Error()}, nil
	}
	if dn, err := os.OpenFile(os.DevNull, os.O_WRONLY, 0); err == nil {
		os.Stdout = dn
	}
	base, err := os.MkdirTemp(os.Getenv("VERIF_SCRATCH"), "c20-")
	if err != nil {
		return &e1.Result{Task: t, ToolError: err.Error()}, nil
	}
	defer os.RemoveAll(base)
	cwd0, _ := os.Getwd()
	defer os.Chdir(cwd0)
	execNo := 0
	cfg := explore.Config{Name: t.Name, Bound: t.Bound, CostAll: t.CostAll, Shard: t.Shard, NShards: t.NShards, MaxExecs: t.MaxExec,
		Opt: vsched.Options{NumCPU: t.W, Policy: t.Policy, MaxSteps: 200000, ExitOnMainReturn: true}}
	if t.Budget > 0 {
		cfg.Deadline = start.Add(time.Duration(t.Budget * float64(time.Second)))
	}
	cfg.NewExec = func() (func(), func(*vsched.Exec) explore.Verdict) {
		execNo++
		dir := filepath.Join(base, fmt.Sprintf("x%d", execNo))
		_ = os.MkdirAll(dir, 0o755)
		_ = os.Chdir(dir)
		wantDir := defaultDir
		args := []string{"rdgen", "-s", fmt.Sprint(p.S), "-n", fmt.Sprint(p.N)}
		// reset -o to the registered default: a fresh process would start from it
		if f := flag.Lookup("o"); f != nil {
			_ = flag.Set("o", f.DefValue)
		}
		switch p.Output {
		case "":
		case "abs":
			wantDir = "absolute/out"
			args = append(args, "-o", filepath.Join(dir, wantDir))
		case "existing":
			wantDir = "already/there"
			_ = os.MkdirAll(filepath.Join(dir, wantDir), 0o755)
			// samples of an earlier, longer run are still there: they must be replaced
			for i := 0; i < p.S; i++ {
				_ = os.WriteFile(filepath.Join(dir, wantDir, fmt.Sprintf("random%d.bin", i)), bytes.Repeat([]byte{0xEE}, 2*p.N/8+5), 0o600)
			}
			args = append(args, "-o", wantDir)
		default:
			wantDir = p.Output
			args = append(args, "-o", p.Output)
		}
		os.Args = args
		rand.Reader = &detReader{}
		body := func() { h.Main() }
		check := func(x *vsched.Exec) explore.Verdict {
			_ = os.Chdir(base)
			snap := snapshot(dir)
			_ = os.RemoveAll(dir)
			v := explore.Verdict{}
			nfiles := 0
			for _, c := range snap {
				if c != "<dir>" {
					nfiles++
				}
			}
			v.Signature = fmt.Sprintf("%s files=%d", x.Outcome, nfiles)
			switch x.Outcome {
			case vsched.OutPanic:
				v.Violation = "panic: " + x.PanicVal
			case vsched.OutDeadlock:
				v.Violation = fmt.Sprintf("the generator never terminates: %v", x.Blocked)
			case vsched.OutHorizon:
				v.Violation = "livelock: step horizon exceeded"
			default:
				if x.Exited && x.ExitCode != 0 {
					v.Violation = fmt.Sprintf("exit status %d", x.ExitCode)
				} else if msg := judge(snap, wantDir, p.S, p.N); msg != "" {
					v.Violation = "at process exit: " + msg
				}
			}
			return v
		}
		return body, check
	}
	st := explore.Explore(cfg)
	return e1.FromStats(t, st, time.Since(start)), st.States
}

// GeneratedMain is the source of the file added to the instrumented rdgen package.
const GeneratedMain = `//go:build go1.18

package main

import "verif/checks/c20"

func main() { c20.SubMain(c20.Hooks{Main: verifOrigMain}) }
`

// Run is the parent side.
func Run(ctx *common.Ctx) int {
	quick := ctx.Quick()
	info, err := e1.Build(ctx, "rdgen", []e1.PkgSpec{{Dir: "/repo/tools/rdgen", RenameMain: "verifOrigMain", FileOps: true, Extra: map[string]string{"verif_main.go": GeneratedMain}}},
		"github.com/Trisia/randomness/tools/rdgen", false)
	if err != nil {
		ctx.Printf("C20: cannot build the instrumented generator: %v\n", err)
		return 2
	}
	_ = os.Setenv("VERIF_SCRATCH", ctx.Work)
	var tasks []e1.Task
	outs := []string{"", "rel", "nested/a/b", "abs", "existing"}
	type cfgT struct {
		s, n, W, pol int
		o            string
	}
	var extra []cfgT
	// more files than twice the writers (buffers handed out by sample index would be reused), under all three default policies
	for _, pol := range []int{0, 1, 2, 3} {
		extra = append(extra, cfgT{5, 64, 2, pol, "rel"}, cfgT{6, 64, 2, pol, ""}, cfgT{7, 64, 3, pol, "rel"}, cfgT{9, 64, 2, pol, "nested/a/b"}, cfgT{3, 64, 2, pol, "rel"}, cfgT{4, 64, 3, pol, ""})
	}
	for _, c := range extra {
		if c.pol == 0 && c.s <= 4 {
			continue
		}
		p, _ := json.Marshal(Params{S: c.s, N: c.n, Output: c.o})
		tasks = append(tasks, e1.Task{Check: "C20", Name: fmt.Sprintf("c20/s%d/n%d/W%d/out=%s/b1/p%d", c.s, c.n, c.W, c.o, c.pol), Params: p, Bound: 1, Policy: c.pol, W: c.W, NShards: 1, CostAll: true})
	}
	if !quick {
		// the smallest configurations as a ladder of deviation bounds 2..6: the number of distinct scheduler-visible
		// states per bound shows where the exploration stops reaching anything new
		for _, sN := range []int{1, 2} {
			for _, o := range []string{"", "nested/a/b"} {
				p, _ := json.Marshal(Params{S: sN, N: 64, Output: o})
				for b := 2; b <= 6; b++ {
					if b < 6 && o != "" {
						continue
					}
					for sh := 0; sh < 16; sh++ {
						tasks = append(tasks, e1.Task{Check: "C20", Name: fmt.Sprintf("c20/ladder/s%d/n64/W2/out=%s/b%d", sN, o, b), Params: p, Bound: b, Policy: 0, W: 2, Shard: sh, NShards: 16, CostAll: true, TrackStates: true})
					}
				}
			}
		}
	}
	for _, s := range []int{1, 2, 3, 4} {
		for _, n := range []int{64, 20000} {
			for _, W := range []int{1, 2, 3} {
				for _, o := range outs {
					if n == 20000 && (s != 3 || o == "existing") {
						continue
					}
					bound := 1
					shards := 1
					if !quick && s <= 3 && n == 64 {
						bound = 3
						shards = 16
						if s <= 2 {
							bound = 4
						}
					}
					if quick && s == 4 && W == 3 && o != "" {
						continue
					}
					p, _ := json.Marshal(Params{S: s, N: n, Output: o})
					for sh := 0; sh < shards; sh++ {
						tasks = append(tasks, e1.Task{Check: "C20", Name: fmt.Sprintf("c20/s%d/n%d/W%d/out=%s/b%d", s, n, W, o, bound), Params: p, Bound: bound, Policy: 0, W: W, Shard: sh, NShards: shards, CostAll: true})
					}
				}
			}
		}
	}
	ctx.Printf("C20: %d exploration tasks (instrumented constructs: %v)\n", len(tasks), info.Counts)
	m := e1.RunTasks(ctx, info.Bin, tasks, 0, false)
	var samples []interface{}
	for _, r := range m.Results {
		if r.Found != nil {
			key := r.Task.Name
			if i := strings.LastIndex(key, "/b"); i > 0 {
				key = key[:i]
			}
			// one finding per output form
			var p Params
			_ = json.Unmarshal(r.Task.Params, &p)
			ctx.Report("out="+p.Output+"/"+classify(r.Found.Violation), fmt.Sprintf("%s: %s", key, r.Found.Violation), map[string]interface{}{"task": r.Task, "choices": r.Found.Choices, "outcome": r.Found.Outcome, "blocked": r.Found.Blocked, "panic": r.Found.PanicVal})
		}
		if len(samples) < 4 && r.Execs > 1 {
			samples = append(samples, map[string]interface{}{"task": r.Task.Name, "executions": r.Execs, "schedule_choice_vector(prefix)": r.Sample, "outcomes": r.Outcomes})
		}
	}
	for _, e := range m.ToolErrors {
		ctx.Note("tool error (not a violation): %s", e)
	}
	// ---------- end-to-end with the built binaries ----------
	e2e := 0
	sizeRuns := 0
	gen, err1 := e1.BuildPlain(ctx, "rdgen.bin", "github.com/Trisia/randomness/tools/rdgen", false)
	det, err2 := e1.BuildPlain(ctx, "rddetector.bin", "github.com/Trisia/randomness/tools/rddetector", false)
	if err1 != nil || err2 != nil {
		ctx.Note("cannot build the tools for the end-to-end part: %v %v", err1, err2)
	} else {
		type cfg struct {
			s, n int
			out  string
		}
		cfgs := []cfg{{1, 20000, ""}, {7, 20000, "rel"}, {300, 20000, "nested/x/y"}, {7, 4096, "abs"}, {1, 1000000, "rel"}, {5, 1000000, ""}, {6, 20000, "samples.bin"}, {3, 20000, "round1/batch.dat"},
			// directory names a path-handling shortcut may trip over: printf verbs, blanks, non-ASCII, a trailing separator, dot segments
			{4, 20000, "100%done"}, {3, 20000, "a b/c%d e"}, {2, 20000, "样本/%s%v"}, {2, 20000, "trail/"}, {3, 20000, ".samples"}, {2, 20000, "a/.b/c"}, {3, 20000, "."}, {300, 20000, "leftover/a"}, {40, 20000, "leftover-b"}, {12, 4096, "leftover-c"}, {2, 20000, "./dot/../dot2/%%"}, {2, 4096, "cwd%"}}
		if !quick {
			cfgs = append(cfgs, cfg{300, 4096, ""}, cfg{33, 1000000, "abs"})
		}
		for ci, c := range cfgs {
			if ctx.Expired() {
				break
			}
			dir := filepath.Join(ctx.Work, fmt.Sprintf("e2e%d", ci))
			if c.out == "cwd%" {
				// the working directory itself carries the awkward characters; default output directory
				dir = filepath.Join(ctx.Work, fmt.Sprintf("e2e %d%%d %%s", ci))
				c.out = ""
			}
			_ = os.MkdirAll(dir, 0o755)
			args := []string{"-s", fmt.Sprint(c.s), "-n", fmt.Sprint(c.n)}
			wantDir := defaultDir
			switch c.out {
			case "":
			case "abs":
				wantDir = "abs/out"
				args = append(args, "-o", filepath.Join(dir, wantDir))
			default:
				wantDir = c.out
				args = append(args, "-o", c.out)
			}
			if strings.HasPrefix(c.out, "leftover") {
				// leftovers of an interrupted earlier run with the SAME sample size: a finished prefix with holes in it
				// (writers finish out of order) - one sample missing, one of zero length, one a byte short
				_ = os.MkdirAll(filepath.Join(dir, wantDir), 0o755)
				upto := c.s / 3
				for i := 0; i <= upto; i++ {
					b := bytes.Repeat([]byte{byte(i), byte(i >> 8), 0x5A, 0xC3}, c.n/8/4+1)[:c.n/8]
					switch i {
					case upto - 4:
						continue
					case upto - 3:
						b = nil
					case upto/2 + 1:
						b = b[:len(b)-1]
					}
					_ = os.WriteFile(filepath.Join(dir, wantDir, fmt.Sprintf("random%d.bin", i)), b, 0o600)
				}
			} else if ci%2 == 1 {
				// regenerate over the larger samples of an earlier run
				_ = os.MkdirAll(filepath.Join(dir, wantDir), 0o755)
				for i := 0; i < c.s && i < 3; i++ {
					_ = os.WriteFile(filepath.Join(dir, wantDir, fmt.Sprintf("random%d.bin", i)), bytes.Repeat([]byte{0xEE}, c.n/8+777), 0o600)
				}
			}
			cmd := exec.Command(gen, args...)
			cmd.Dir = dir
			var ob bytes.Buffer
			cmd.Stdout, cmd.Stderr = io.Discard, &ob
			err := runTimeout(cmd, 5*time.Minute)
			e2e++
			key := fmt.Sprintf("e2e/rdgen/out=%s", c.out)
			if err != nil {
				ctx.Report(key+"/"+"exit", fmt.Sprintf("rdgen %v failed: %v %s", args, err, tailStr(ob.String(), 300)), map[string]interface{}{"args": args})
			} else if msg := judgeDisk(dir, wantDir, c.s, c.n); msg != "" {
				ctx.Report(key+"/"+classify(msg), fmt.Sprintf("rdgen %v: %s", args, msg), map[string]interface{}{"args": args})
			} else if c.n == 20000 || c.n == 1000000 {
				// the directory must be accepted by the batch detector as s samples of n bits
				rep := filepath.Join(dir, "report.csv")
				dc := exec.Command(det, "-i", filepath.Join(dir, wantDir), "-o", rep, "-n", "16")
				dc.Dir = dir
				var eb bytes.Buffer
				dc.Stdout, dc.Stderr = io.Discard, &eb
				derr := runTimeout(dc, 20*time.Minute)
				b, _ := os.ReadFile(rep)
				lines := strings.Split(strings.TrimRight(string(b), "\n"), "\n")
				e2e++
				// the detector announces what it accepted: "... s = <count> ... bits = <size>"
				announced := fmt.Sprintf("s = %d ", c.s)
				scale := fmt.Sprintf("bits = %d", c.n)
				logOK := !strings.Contains(eb.String(), "s = ") || (strings.Contains(eb.String(), announced) && strings.Contains(eb.String(), scale))
				cols := strings.Count(lines[0], ",") + 1
				rowsOK := true
				for _, l := range lines[1:] {
					if strings.Count(l, ",")+1 != cols {
						rowsOK = false
					}
				}
				if derr != nil || len(lines) != c.s+1 || !logOK || !rowsOK {
					ctx.Report("e2e/rddetector-accepts", fmt.Sprintf("rddetector on the directory written by rdgen %v: err=%v, %d lines (expected %d), announced %q", args, derr, len(lines), c.s+1, firstLine(eb.String())),
						map[string]interface{}{"args": args})
				}
			}
			_ = os.RemoveAll(dir)
		}
		// size sweep: "other multiples of 8" - every byte count 1..64 and the byte counts around every power of two up to 4 MiB
		// (a block-wise writer has its shortcuts at multiples of its block size); s=1 below 16 bytes, where two random samples may coincide
		var byteCounts []int
		for b := 1; b <= 64; b++ {
			byteCounts = append(byteCounts, b)
		}
		for e := 7; e <= 22; e++ {
			byteCounts = append(byteCounts, 1<<e-1, 1<<e, 1<<e+1, 3<<(e-1))
		}
		if !quick {
			for k := 2; k <= 40; k++ {
				byteCounts = append(byteCounts, k*4096, k*65536, k*65536+1, k*1000)
			}
		}
		for si, bc := range byteCounts {
			if ctx.Expired() {
				break
			}
			sN := 2
			if bc < 16 {
				sN = 1
			}
			dir := filepath.Join(ctx.Work, fmt.Sprintf("sz%d", si))
			_ = os.MkdirAll(dir, 0o755)
			args := []string{"-s", fmt.Sprint(sN), "-n", fmt.Sprint(8 * bc), "-o", "out"}
			cmd := exec.Command(gen, args...)
			cmd.Dir = dir
			var ob bytes.Buffer
			cmd.Stdout, cmd.Stderr = io.Discard, &ob
			err := runTimeout(cmd, 5*time.Minute)
			e2e++
			sizeRuns++
			if err != nil {
				ctx.Report("e2e/rdgen/size-sweep/exit", fmt.Sprintf("rdgen %v failed: %v %s", args, err, tailStr(ob.String(), 300)), map[string]interface{}{"args": args})
			} else if msg := judgeDisk(dir, "out", sN, 8*bc); msg != "" {
				ctx.Report("e2e/rdgen/size-sweep/"+classify(msg), fmt.Sprintf("rdgen %v: %s", args, msg), map[string]interface{}{"args": args})
			}
			_ = os.RemoveAll(dir)
		}
	}
	samples = append(samples, map[string]interface{}{"family": "size-sweep", "runs": sizeRuns, "configs": "rdgen -s 2 (1 below 16 bytes) -n 8*b for every b in 1..64 and b in {2^e-1, 2^e, 2^e+1, 3*2^(e-1)} for e=7..22 (thorough: also k*4096, k*65536, k*65536+1, k*1000 for k=2..40): exactly s files of b bytes, pairwise different"})
	samples = append(samples, map[string]interface{}{"family": "end-to-end", "runs": e2e, "configs": "s in {1,5,7,300(,33)} x n in {20000, 10^6, 4096} x output forms (default, relative, nested, absolute, names ending in .bin/.dat, names with printf verbs / blanks / non-ASCII / trailing separator / dot segments, a working directory with such a name, the working directory itself (.), hidden directories (.samples, a/.b/c), a directory holding the leftovers of an interrupted run of the same sample size with a missing, an empty and a short sample inside the finished prefix), then rddetector -i on the result"})
	sigs := make([]string, 0)
	for k := range m.Signatures {
		sigs = append(sigs, k)
	}
	sort.Strings(sigs)
	cov := common.Coverage{
		"distinct_states_per_bound_ladder": m.StatesPerTask,
		"states":                           maxInt(len(m.States), 1),
		"transitions":                      maxInt(m.Transitions, 1),
		"traces_validated_against_impl":    m.Execs,
		"evaluations":                      m.Execs + e2e,
		"distinct_nontrivial":              len(m.States),
		"samples":                          samples,
		"rule": "the real (instrumented) rdgen main() runs with os.Args set in a scratch working directory; crypto/rand.Reader is replaced by a deterministic never-repeating stream whose Read is a scheduling point; every schedule with at most d non-default scheduling decisions is executed for s in 1..4 (and 5,6,7,9) files, W in 1..3 writers, five output forms; " +
			"main's return is process exit: the scratch tree is examined at that instant (exactly random0..random(s-1).bin, n/8 bytes each, pairwise different, inside the requested directory, nothing elsewhere)",
		"outcome_signatures":       sigs,
		"tasks":                    len(m.Results),
		"caps_hit":                 m.Capped,
		"tool_errors":              m.ToolErrors,
		"instrumentation":          info.Counts,
		"max_points_per_execution": m.MaxPoints,
		"end_to_end_runs":          e2e,
		"bounds":                   "deviation bound 1 (thorough: 2 for s<=3, n=64; 4 for s<=2, W=2); W<=3; s<=4 in five output forms under the ascending-id policy, s in {3..9} under all three default policies",
		"exhaustive":               len(m.Capped) == 0 && len(m.ToolErrors) == 0,
	}
	return ctx.Finish("model_checking", cov, []string{"file operations (MkdirAll, OpenFile, Write, Close) and the random source's Read are scheduling points; the real file system under a scratch directory is the observed state",
		"the -o flag is reset to its registered default before each execution, as a fresh process would start"})
}

func classify(msg string) string {
	switch {
	case strings.Contains(msg, "identical contents"):
		return "duplicate-contents"
	case strings.Contains(msg, "bytes, expected"):
		return "size"
	case strings.Contains(msg, "expected exactly"):
		return "wrong-files"
	case strings.Contains(msg, "never terminates"):
		return "deadlock"
	case strings.Contains(msg, "panic"):
		return "panic"
	}
	return "other"
}

func judgeDisk(dir, wantDir string, s, n int) string { return judge(snapshot(dir), wantDir, s, n) }

func runTimeout(cmd *exec.Cmd, d time.Duration) error {
	if err := cmd.Start(); err != nil {
		return err
	}
	done := make(chan error, 1)
	go func() { done <- cmd.Wait() }()
	select {
	case err := <-done:
		return err
	case <-time.After(d):
		_ = cmd.Process.Kill()
		return fmt.Errorf("still running after %s (killed)", d)
	}
}

func firstLine(s string) string {
	if i := strings.Index(s, "\n"); i >= 0 {
		return s[:i]
	}
	return s
}

func tailStr(s string, n int) string {
	if len(s) > n {
		return s[len(s)-n:]
	}
	return s
}

func maxInt(a, b int) int {
	if a > b {
		return a
	}
	return b
}
