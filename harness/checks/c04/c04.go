// Package c04: rank, linear complexity and Maurer tests never crash and follow the standard (E2).
package c04

import (
	"fmt"
	"runtime"
	"sync"
	"sync/atomic"

	r "github.com/Trisia/randomness"

	"verif/calls"
	"verif/common"
	"verif/e2"
	"verif/enum"
	"verif/refmodel"
)

type mat [32]uint32 // row words, bit 31 = column 0

func (m *mat) bits() []bool {
	out := make([]bool, 0, 1024)
	for r := 0; r < 32; r++ {
		for c := 0; c < 32; c++ {
			out = append(out, m[r]>>uint(31-c)&1 == 1)
		}
	}
	return out
}

func diag(r int) mat {
	var m mat
	for i := 0; i < r; i++ {
		m[i] = 1 << uint(31-i)
	}
	return m
}

func (m *mat) get(r, c int) uint32 { return m[r] >> uint(31-c) & 1 }

func (m *mat) addCol(i, j int) { // column j += column i
	for r := 0; r < 32; r++ {
		if m.get(r, i) == 1 {
			m[r] ^= 1 << uint(31-j)
		}
	}
}

func (m *mat) swapCol(i, j int) {
	for r := 0; r < 32; r++ {
		a, b := m.get(r, i), m.get(r, j)
		if a != b {
			m[r] ^= 1<<uint(31-i) | 1<<uint(31-j)
		}
	}
}

// apply elementary operation op (0 add row, 1 swap rows, 2 add col, 3 swap cols) with indices i != j
func (m *mat) apply(op, i, j int) {
	switch op {
	case 0:
		m[j] ^= m[i]
	case 1:
		m[i], m[j] = m[j], m[i]
	case 2:
		m.addCol(i, j)
	case 3:
		m.swapCol(i, j)
	}
}

func mul(a, b *mat) mat { // a*b over GF(2)
	var out mat
	for r := 0; r < 32; r++ {
		var acc uint32
		for k := 0; k < 32; k++ {
			if a.get(r, k) == 1 {
				acc ^= b[k]
			}
		}
		out[r] = acc
	}
	return out
}

// six fixed invertible (P,Q) pairs
func pairs() [][2]mat {
	id := diag(32)
	rev := mat{}
	for i := 0; i < 32; i++ {
		rev[i] = 1 << uint(i) // row i has its one in column 31-i
	}
	shift := mat{}
	for i := 0; i < 32; i++ {
		shift[i] = 1 << uint(31-(i+5)%32)
	}
	dense1 := diag(32) // unit lower triangular with a dense pattern
	for i := 1; i < 32; i++ {
		for j := 0; j < i; j++ {
			if (i*7+j*3)%5 < 3 {
				dense1[i] |= 1 << uint(31-j)
			}
		}
	}
	dense2 := diag(32) // unit upper triangular
	for i := 0; i < 32; i++ {
		for j := i + 1; j < 32; j++ {
			if (i*5+j*11)%7 < 4 {
				dense2[i] |= 1 << uint(31-j)
			}
		}
	}
	return [][2]mat{{id, id}, {rev, id}, {id, rev}, {shift, shift}, {dense1, dense2}, {dense2, dense1}}
}

func classOf(rank int) int {
	switch rank {
	case 32:
		return 0
	case 31:
		return 1
	}
	return 2
}

func Run(ctx *common.Ctx) int {
	cmp := enum.NewCmp(ctx, 1e-8)
	quick := ctx.Quick()
	exhaustive := true
	all := calls.ByGroup("C04")
	dRank := e2.New(cmp, all[:1])
	dMaurer := e2.New(cmp, all[4:])
	lcCall := func(m int) calls.Call {
		for _, c := range calls.LinearComplexityCalls([]int{m}) {
			return c
		}
		panic("no call")
	}
	// ---------- oracle self-check: bitset Berlekamp-Massey against brute-force LFSR search, every block m <= 12 ----------
	var bmChecked int64
	for m := 1; m <= 12; m++ {
		enum.AllStrings(m, func(bits []bool, v uint64) {
			if refmodel.BM(bits) != refmodel.BruteLC(bits) {
				ctx.Note("ORACLE SELF-CHECK FAILED: BM != brute force on %s", common.BitString(bits))
			}
			atomic.AddInt64(&bmChecked, 1)
		})
	}
	// ---------- rank (a): every k x k matrix, k <= 4, embedded six ways ----------
	prs := pairs()
	var rankEvals int64
	rankClasses := common.NewCounter()
	maxK := 4
	if !quick {
		maxK = 5 // 2^25 matrices, one dense embedding each
	}
	for k := 1; k <= maxK; k++ {
		total := 1 << uint(k*k)
		common.ParFor(total, func(v int) {
			if quick && k == 4 && v%4 != 0 && (v*2654435761)%7 != 0 {
				// quick: every 4th 4x4 matrix plus a multiplicative stride; all of them in thorough
				return
			}
			base := diag(32)
			for r := 0; r < k; r++ {
				row := uint32(v >> uint(r*k) & (1<<uint(k) - 1))
				base[r] = base[r]&^(uint32(1<<uint(k)-1)<<uint(32-k)) | row<<uint(32-k)
			}
			local := 0
			for pi := range prs {
				if quick && k == 4 && pi >= 2 && v%16 != 0 {
					continue
				}
				if k == 5 && pi != 4 {
					continue
				}
				t := mul(&prs[pi][0], &base)
				t = mul(&t, &prs[pi][1])
				bits := t.bits()
				rankClasses.Add(fmt.Sprint(classOf(refmodel.Rank32(t[:]))))
				local += dRank.One(bits, func() interface{} {
					return map[string]interface{}{"matrix": fmt.Sprintf("P%d * diag(A, I) * Q%d with %dx%d block A=%#x", pi, pi, k, k, v), "rows_hex": fmt.Sprintf("%08x", t)}
				})
			}
			atomic.AddInt64(&rankEvals, int64(local))
		})
	}
	cmp.Count("rank: every kxk GF(2) matrix (k<=4) embedded as P diag(A,I) Q for six invertible pairs", rankEvals)
	// ---------- rank (b): explicit-state search over elementary operations from diag(I_r, 0) ----------
	idx := []int{0, 1, 15, 30, 31}
	depth := 2
	if !quick {
		depth = 3
	}
	var states, transitions int64
	var smu sync.Mutex
	common.ParFor(33, func(r int) {
		seen := map[mat]bool{}
		frontier := []mat{diag(r)}
		seen[frontier[0]] = true
		want := classOf(r)
		localStates, localTrans := 1, 0
		for dpt := 0; dpt <= depth; dpt++ {
			var next []mat
			for _, m := range frontier {
				// invariant in every state: the implementation's class equals the class of r
				bits := m.bits()
				if got := classOf(refmodel.Rank32(m[:])); got != want {
					ctx.Note("ORACLE SELF-CHECK FAILED: reference rank class changed under elementary operations")
				}
				dRank.One(bits, func() interface{} {
					return map[string]interface{}{"from": fmt.Sprintf("diag(I_%d,0)", r), "depth": dpt, "rows_hex": fmt.Sprintf("%08x", m)}
				})
				if dpt == depth {
					continue
				}
				for op := 0; op < 4; op++ {
					for _, i := range idx {
						for _, j := range idx {
							if i == j {
								continue
							}
							if dpt == 2 && (op%2 == 1 || (i+j)%2 == 0) {
								continue // depth 3 (thorough): additions only, half of the index pairs
							}
							nm := m
							nm.apply(op, i, j)
							localTrans++
							if !seen[nm] {
								seen[nm] = true
								next = append(next, nm)
								localStates++
							}
						}
					}
				}
			}
			frontier = next
		}
		smu.Lock()
		states += int64(localStates)
		transitions += int64(localTrans)
		smu.Unlock()
	})
	cmp.Count("rank: breadth-first search over elementary row/column operations from diag(I_r,0), r=0..32 (invariant: rank class)", states)
	// ---------- rank (c): all 27 class sequences of three matrices x tails ----------
	reps := []mat{diag(32), diag(31), diag(17)}
	var seqEvals int64
	for a := 0; a < 27; a++ {
		for _, tail := range []int{0, 1, 1023} {
			var bits []bool
			x := a
			for k := 0; k < 3; k++ {
				m := reps[x%3]
				m.apply(0, 1, 30)
				m.apply(3, 2, 29)
				bits = append(bits, m.bits()...)
				x /= 3
			}
			for t := 0; t < tail; t++ {
				bits = append(bits, t%3 == 0)
			}
			seqEvals += int64(dRank.One(bits, func() interface{} { return map[string]interface{}{"class_sequence_code": a, "tail_bits": tail} }))
		}
	}
	cmp.Count("rank: all 27 class sequences of three matrices x tails {0,1,1023}", seqEvals)
	// call sequences: the parameterised entry point with other (legal) dimensions first, scratch state emptied by
	// two garbage collections, then the standard 32x32 test: nothing of the earlier call may matter
	for _, dim := range [][2]int{{8, 8}, {3, 3}, {16, 16}, {32, 16}} {
		runtime.GC()
		runtime.GC()
		small := enum.Filler(4096, uint64(dim[0])+5)
		_ = common.Catch(func() { r.MatrixRankProto(small, dim[0], dim[1]) })
		for k := 0; k < 3; k++ {
			bits := enum.Filler(3*1024+17, uint64(ctx.Seed)+uint64(dim[0]*10+k))
			seqEvals += int64(dRank.One(bits, func() interface{} {
				return map[string]interface{}{"sequence": fmt.Sprintf("runtime.GC x2; MatrixRankProto(.,%d,%d); MatrixRankProto(filler,32,32)", dim[0], dim[1])}
			}))
		}
	}
	cmp.Count("rank: the 32x32 test after a call with other dimensions (8x8, 3x3, 16x16, 32x16) and emptied pools", 12)
	cmp.Sample(map[string]interface{}{"family": "rank", "example": "diag(I_31,0) after 'add row 15 to row 0' and 'swap columns 30,1' must still be classified full-1", "bfs_states": states, "bfs_transitions": transitions, "classes_seen": rankClasses.Map()})

	// ---------- linear complexity ----------
	var lcEvals int64
	lcClasses := common.NewCounter()
	maxM := 16
	if !quick {
		maxM = 20
	}
	for m := 4; m <= maxM; m++ {
		if ctx.Expired() {
			exhaustive = false
			break
		}
		d := e2.New(cmp, []calls.Call{lcCall(m)})
		enum.AllStrings(m, func(bits []bool, v uint64) {
			k := d.One(bits, func() interface{} { return map[string]interface{}{"m": m, "block": common.BitString(bits)} })
			atomic.AddInt64(&lcEvals, int64(k))
		})
	}
	cmp.Count(fmt.Sprintf("linear complexity: every m-bit block, m=4..%d, as a one-block sequence", maxM), lcEvals)
	lcEvals = 0
	for m := 4; m <= 8; m++ {
		d := e2.New(cmp, []calls.Call{lcCall(m)})
		total := 1 << uint(2*m)
		common.ParFor(total, func(v int) {
			bits := enum.BitsOf(uint64(v), 2*m, nil)
			k := d.One(bits, func() interface{} { return map[string]interface{}{"m": m, "two_blocks": common.BitString(bits)} })
			for t := 1; t < m; t++ {
				bits = append(bits, t%2 == 1)
				if v%16 == 0 {
					k += d.One(bits, func() interface{} {
						return map[string]interface{}{"m": m, "two_blocks_and_tail": common.BitString(bits)}
					})
				}
			}
			atomic.AddInt64(&lcEvals, int64(k))
		})
	}
	cmp.Count("linear complexity: every pair of m-bit blocks, m=4..8, with tails of 1..m-1 bits", lcEvals)
	// m = 500, 1000: unit impulse e_L for every L (complexity exactly L), zero block, LFSR outputs, complements
	lcEvals = 0
	bigMs := []int{500, 1000}
	for _, m := range bigMs {
		d := e2.New(cmp, []calls.Call{lcCall(m)})
		common.ParFor(m+1, func(L int) {
			bits := make([]bool, m)
			if L > 0 {
				bits[L-1] = true
			}
			if quick && m == 1000 && L%5 != 0 && L < m-3 && L > 3 {
				return
			}
			lcClasses.Add(fmt.Sprintf("m=%d L=%d", m, refmodel.BM(bits)))
			k := d.One(bits, func() interface{} {
				return map[string]interface{}{"m": m, "block": fmt.Sprintf("unit impulse at position %d (linear complexity %d)", L-1, L)}
			})
			// the same block between two filler blocks, and with a tail
			seq := append(append(enum.Filler(m, uint64(L)+3), bits...), enum.Filler(m+m/3, uint64(L)+9)...)
			k += d.One(seq, func() interface{} {
				return map[string]interface{}{"m": m, "blocks": fmt.Sprintf("filler(seed %d), unit impulse at %d, filler(seed %d) + %d tail bits", L+3, L-1, L+9, m/3)}
			})
			atomic.AddInt64(&lcEvals, int64(k))
		})
		// LFSR outputs of degree 1..64 and their complements
		common.ParFor(64, func(di int) {
			deg := di + 1
			bits := lfsr(deg, m)
			comp := make([]bool, m)
			for i := range bits {
				comp[i] = !bits[i]
			}
			k := d.One(bits, func() interface{} {
				return map[string]interface{}{"m": m, "block": fmt.Sprintf("LFSR output of degree %d", deg)}
			})
			k += d.One(comp, func() interface{} {
				return map[string]interface{}{"m": m, "block": fmt.Sprintf("complement of the LFSR output of degree %d", deg)}
			})
			atomic.AddInt64(&lcEvals, int64(k))
		})
	}
	{
		m := 5000
		d := e2.New(cmp, []calls.Call{lcCall(m)})
		Ls := []int{0, 1, 2, 2499, 2500, 2501, 4998, 4999, 5000}
		if !quick {
			for L := 250; L < 5000; L += 250 {
				Ls = append(Ls, L)
			}
		}
		common.ParFor(len(Ls), func(i int) {
			L := Ls[i]
			bits := make([]bool, m)
			if L > 0 {
				bits[L-1] = true
			}
			k := d.One(bits, func() interface{} {
				return map[string]interface{}{"m": m, "block": fmt.Sprintf("unit impulse at position %d", L-1)}
			})
			atomic.AddInt64(&lcEvals, int64(k))
		})
	}
	// near-identical blocks inside one sequence (a per-call cache or a comparison keyed by part of a block would
	// confuse them): a base block and a copy differing in one bit near the end / start / middle, among 100 fillers
	// (enough blocks for a moderate P: with two or three blocks both the right and a wrong classification give P < 1e-8)
	{
		type nd struct {
			m, base, flip int
		}
		var nds []nd
		for _, m := range []int{67, 100, 500, 1000} {
			for base := 0; base < 5; base++ {
				for _, flip := range []int{m - 1, m - 2, m - 3, m - 4, m - 5, m - 6, m - 7, m - 8, 0, m / 2} {
					if quick && m == 1000 && flip < m-4 && flip != 0 {
						continue
					}
					nds = append(nds, nd{m, base, flip})
				}
			}
		}
		baseNames := []string{"all zeros", "all ones", "filler", "alternating", "unit impulse at 0"}
		var ndEvals int64
		common.ParFor(len(nds), func(i int) {
			c := nds[i]
			m := c.m
			B := make([]bool, m)
			switch c.base {
			case 1:
				for t := range B {
					B[t] = true
				}
			case 2:
				B = enum.Filler(m, uint64(m)+77)
			case 3:
				for t := range B {
					B[t] = t%2 == 1
				}
			case 4:
				B[0] = true
			}
			V := append([]bool{}, B...)
			V[c.flip] = !V[c.flip]
			var seq []bool
			seq = append(seq, enum.Filler(50*m, uint64(m)+uint64(c.base))...)
			seq = append(seq, B...)
			seq = append(seq, enum.Filler(10*m, uint64(m)+uint64(c.flip)+5)...)
			seq = append(seq, V...)
			seq = append(seq, B...)
			seq = append(seq, enum.Filler(38*m+m/3, uint64(m)+uint64(c.flip)+6)...)
			d := e2.New(cmp, []calls.Call{lcCall(m)})
			atomic.AddInt64(&ndEvals, int64(d.One(seq, func() interface{} {
				return map[string]interface{}{"m": m, "blocks": fmt.Sprintf("50 filler blocks, base block (%s), 10 fillers, the base with bit %d flipped, the base again, 38 fillers + %d tail bits", baseNames[c.base], c.flip, m/3)}
			})))
		})
		cmp.Count("linear complexity m=67,100,500,1000: a base block, a copy with one bit flipped (last 8 positions, first, middle) and the base again among 100 filler blocks", ndEvals)
	}
	cmp.Count("linear complexity m=500,1000 (every complexity L=0..m via unit impulses, LFSR outputs of degree 1..64 and complements) and m=5000 (selected L)", lcEvals)
	cmp.Sample(map[string]interface{}{"family": "linear complexity", "example": "m=500: block 0^499 1 (complexity 500, the lone final one)", "distinct_(m,L)_pairs_at_large_m": lcClasses.Len(), "oracle_selfcheck_blocks_BM_vs_bruteforce": bmChecked})

	// ---------- the byte-oriented entry points and registry runners of the three tests ----------
	// (the bytes go through the shared byte-to-bit conversion; compared with the reference on the MSB-first expansion)
	{
		var bEvals int64
		blens := []int{128, 129, 1121, 2500, 4096, 8191, 125000}
		common.ParFor(len(blens), func(i int) {
			L := blens[i]
			for sd := 0; sd < 3; sd++ {
				data := enum.FillerBytes(L, uint64(ctx.Seed)+uint64(L)+uint64(sd))
				if sd == 2 {
					for k := range data {
						data[k] &= 0x7F
					}
				}
				bits := refmodel.Bits(data)
				desc := func() interface{} { return map[string]interface{}{"bytes": L, "filler_seed": ctx.Seed + int64(L) + int64(sd), "entry": "byte-oriented"} }
				type bc struct {
					name string
					f    func() (float64, float64)
					ref  func() (float64, float64)
					min  int
				}
				for _, c := range []bc{
					{"MatrixRankTestBytes(32,32)", func() (float64, float64) { return r.MatrixRankTestBytes(data, 32, 32) }, func() (float64, float64) { return refmodel.MatrixRank(bits) }, 128},
					{"MatrixRank(runner)", func() (float64, float64) { x := r.MatrixRank(data); return x.P, x.Q }, func() (float64, float64) { return refmodel.MatrixRank(bits) }, 128},
					{"LinearComplexityTestBytes(m=500)", func() (float64, float64) { return r.LinearComplexityTestBytes(data, 500) }, func() (float64, float64) { return refmodel.LinearComplexity(bits, 500) }, 128},
					{"LinearComplexity(runner)", func() (float64, float64) { x := r.LinearComplexity(data); return x.P, x.Q }, func() (float64, float64) { return refmodel.LinearComplexity(bits, 500) }, 128},
					{"MaurerUniversalTestBytes", func() (float64, float64) { return r.MaurerUniversalTestBytes(data) }, func() (float64, float64) { return refmodel.Maurer(bits) }, 1121},
					{"MaurerUniversal(runner)", func() (float64, float64) { x := r.MaurerUniversal(data); return x.P, x.Q }, func() (float64, float64) { return refmodel.Maurer(bits) }, 1121},
				} {
					if L < c.min {
						continue
					}
					var p, q float64
					if pv := common.Catch(func() { p, q = c.f() }); pv != nil {
						cmp.Panic(c.name, pv, desc())
						continue
					}
					wp, wq := c.ref()
					cmp.PQ(c.name, uint64(L)<<8|uint64(sd), p, q, wp, wq, desc)
					atomic.AddInt64(&bEvals, 1)
				}
			}
		})
		cmp.Count("byte-oriented entry points and registry runners of rank / linear complexity / Maurer on fillers of 128..125000 bytes", bEvals)
	}
	// ---------- Maurer ----------
	var mEvals int64
	inits := []string{"counter", "constant", "counter-minus-one"}
	for K := 1; K <= 3; K++ {
		for t := 0; t < 7; t++ {
			for _, init := range inits {
				letters := []int{0, 1, 127, 300, 301, 302} // 300: pattern last seen at block 1, 301: at block 1280, 302: never seen
				nw := 1
				for i := 0; i < K; i++ {
					nw *= len(letters)
				}
				for w := 0; w < nw; w++ {
					blocks := make([]int, 0, 1280+K)
					for i := 0; i < 1280; i++ {
						switch init {
						case "counter":
							blocks = append(blocks, i%128)
						case "constant":
							blocks = append(blocks, 5)
						default:
							v := i % 127 // never 127... shift so that pattern 64 never occurs
							if v >= 64 {
								v++
							}
							blocks = append(blocks, v)
						}
					}
					first, last := blocks[0], blocks[1279]
					never := 64
					if init == "counter" {
						never = -1
					}
					if init == "constant" {
						never = 99
					}
					x := w
					ok := true
					var word []int
					for i := 0; i < K; i++ {
						l := letters[x%len(letters)]
						x /= len(letters)
						switch l {
						case 300:
							l = first
						case 301:
							l = last
						case 302:
							l = never
						}
						if l < 0 {
							ok = false
						}
						word = append(word, l)
					}
					if !ok {
						continue
					}
					blocks = append(blocks, word...)
					bits := make([]bool, 0, 7*len(blocks)+t)
					for _, b := range blocks {
						bits = append(bits, enum.BitsOf(uint64(b), 7, nil)...)
					}
					for i := 0; i < t; i++ {
						bits = append(bits, i%2 == 0)
					}
					mEvals += int64(dMaurer.One(bits, func() interface{} {
						return map[string]interface{}{"n": len(bits), "K": K, "tail_bits": t, "initial_segment": init, "test_blocks": word}
					}))
				}
			}
		}
	}
	fl := []int{8967, 8968, 20000, 1000000}
	for _, n := range fl {
		for s := 0; s < 3; s++ {
			bits := enum.Filler(n, uint64(ctx.Seed)+uint64(s))
			mEvals += int64(dMaurer.One(bits, func() interface{} { return map[string]interface{}{"n": n, "filler_seed": ctx.Seed + int64(s)} }))
		}
		mEvals += int64(dMaurer.One(make([]bool, n), func() interface{} { return map[string]interface{}{"n": n, "constant": 0} }))
	}
	// bursts of long distances: after a constant (or a two-letter) initial segment a run of L letters that were
	// never seen before (distance = block index), then repeats with short distances, at several alignments of the
	// burst (an accumulation in batches, a product instead of a sum, a narrow table type would show here only)
	{
		type burst struct{ init, L, lead, rep int }
		var bs []burst
		for _, init := range []int{0, 1} {
			for _, L := range []int{16, 64, 100, 126} {
				for _, lead := range []int{0, 1, 37, 99, 100} {
					for _, rep := range []int{0, 67, 400} {
						bs = append(bs, burst{init, L, lead, rep})
					}
				}
			}
		}
		bs = append(bs, burst{2, 127, 8720, 500}) // late first occurrences: 10000 constant blocks, then every other letter once
		var bEvals int64
		common.ParFor(len(bs), func(i int) {
			b := bs[i]
			var letters []int
			nInit := 1280
			for k := 0; k < nInit; k++ {
				letters = append(letters, []int{0, k % 2, 0}[b.init]) // constant 0 / alternating 0,1 / constant 0
			}
			for k := 0; k < b.lead; k++ {
				letters = append(letters, 0)
			}
			for k := 0; k < b.L; k++ {
				letters = append(letters, 2+k%126) // letters 2..127: never seen before
			}
			for k := 0; k < b.rep; k++ {
				letters = append(letters, 2+(k*5)%7)
			}
			bits := make([]bool, 0, 7*len(letters)+3)
			for _, l := range letters {
				for j := 6; j >= 0; j-- {
					bits = append(bits, l>>uint(j)&1 == 1)
				}
			}
			bits = append(bits, true, false, true)
			atomic.AddInt64(&bEvals, int64(dMaurer.One(bits, func() interface{} {
				return map[string]interface{}{"blocks": len(letters), "initial_segment": []string{"constant 0", "alternating 0,1", "constant 0"}[b.init], "leading_zero_blocks": b.lead, "burst_of_new_letters": b.L, "repeats": b.rep}
			})))
		})
		mEvals += bEvals
	}
	cmp.Count("Maurer: n=7(1280+K)+t, K=1..3, t=0..6, three initial segments x every K-letter word over six 7-bit letters; fillers at 8967, 8968, 20000, 10^6; bursts of 16..127 never-seen letters at five alignments after a constant / alternating initial segment", mEvals)
	cmp.Sample(map[string]interface{}{"family": "Maurer", "example": "initial segment = constant block 5 (127 patterns never seen), test blocks [5 99 0]: distances 1, 1282 (never seen: table entry 0), 1283"})
	// S2 on rank, LC(500), Maurer at their minimum lengths
	specs := []e2.LenSpec{{N: 1024, MaxBase: 6}, {N: 1025, MaxBase: 4}, {N: 2048, MaxBase: 4}, {N: 8967, MaxBase: 4}, {N: 20000, MaxBase: 3}}
	if !quick {
		specs = []e2.LenSpec{{N: 1024, MaxBase: 8}, {N: 1025, MaxBase: 7}, {N: 2048, MaxBase: 7}, {N: 8967, MaxBase: 6}, {N: 20000, MaxBase: 5}, {N: 1000000, MaxBase: 1}}
	}
	dS2 := e2.New(cmp, []calls.Call{all[0], all[1], all[4]})
	ev, ok := dS2.S2(ctx, specs, false, 0, func(n int) []int { return []int{500, 1024} })
	cmp.Count("S2 periodic patterns with bit flips (rank, linear complexity m=500, Maurer)", ev)
	exhaustive = exhaustive && ok
	fev, fok := dS2.Fillers(ctx, []int{1024, 1025, 1087, 1088, 2047, 2048, 2049, 4096, 8967, 8968, 9000, 9024, 20000}, 3, uint64(ctx.Seed))
	cmp.Count("fillers and biased fillers at rank / linear-complexity / Maurer boundary lengths", fev)
	exhaustive = exhaustive && fok
	cov := cmp.Coverage("rank: every kxk matrix (k<=4; quick: a quarter of the 4x4) in six embeddings, breadth-first search of depth "+fmt.Sprint(depth)+" over elementary operations from every rank, all 27 class sequences; "+
		"linear complexity: every m-bit block m=4.."+fmt.Sprint(maxM)+", every block pair m<=8, every complexity L at m=500/1000 (unit impulses), LFSR outputs, m=5000 at selected L; Maurer: all short test segments over six letters after three initial segments; "+
		"any panic is a violation; distinct = distinct (call, reference P) pairs", exhaustive,
		common.Coverage{"bfs_states": states, "bfs_transitions": transitions})
	return ctx.Finish("exploration", cov, []string{"oracle: true GF(2) rank (32-bit row words), Berlekamp-Massey cross-checked against brute-force LFSR search for every block of m<=12 bits, distance table by map", "tolerance 1e-8"})
}

// lfsr produces n output bits of a Fibonacci LFSR of the given degree with taps (deg, 1) and a non-zero seed.
func lfsr(deg, n int) []bool {
	st := make([]bool, deg)
	st[0] = true
	if deg > 2 {
		st[deg-2] = true
	}
	out := make([]bool, n)
	for i := 0; i < n; i++ {
		out[i] = st[0]
		nb := st[0] != st[deg-1]
		if deg > 3 {
			nb = nb != st[deg/2]
		}
		copy(st, st[1:])
		st[deg-1] = nb
	}
	return out
}
