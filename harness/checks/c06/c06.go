// Package c06: the exported incomplete-gamma tail function is accurate, bounded and monotone (E2 on a stated lattice).
package c06

import (
	"fmt"
	"math"
	"sort"
	"sync"

	r "github.com/Trisia/randomness"

	"verif/checks/c18"
	"verif/common"
	"verif/refmodel"
)

func Run(ctx *common.Ctx) int {
	quick := ctx.Quick()
	// shapes: twoA = 2a, a an integer or half-integer in [0.5, 5000]
	shapeSet := map[int]bool{}
	if quick {
		for t := 1; t <= 450; t++ {
			shapeSet[t] = true
		}
		// shapes the tests produce: 2^m-1 over 2, 2^(m-2), 2^(m-3), 2^(m-1), k-1, K/2, N/2 ...
		for _, t := range []int{3, 15, 255, 1, 2, 8, 16, 32, 64, 4, 128, 6, 5, 3, 9, 10, 20, 100, 200, 1000, 2000, 2500, 5000, 10000, 9999, 9998, 7777, 4999, 3001} {
			shapeSet[t] = true
		}
		for t := 128.0; t <= 10000; t *= 1.17 {
			shapeSet[int(t)] = true
			shapeSet[int(t)|1] = true
		}
		for t := 600; t <= 10000; t += 37 {
			shapeSet[t] = true
		}
	} else {
		for t := 1; t <= 10000; t++ {
			shapeSet[t] = true
		}
	}
	var shapes []int
	for t := range shapeSet {
		if t >= 1 && t <= 10000 {
			shapes = append(shapes, t)
		}
	}
	sort.Sort(sort.Reverse(sort.IntSlice(shapes))) // the expensive (large) shapes first: better balance over the cores
	var mu sync.Mutex
	evals := 0
	worstFrac := 0.0
	worstAt := ""
	var samples []interface{}
	regimes := common.NewCounter()
	capped := false
	common.ParFor(len(shapes), func(si int) {
		if ctx.Expired() {
			capped = true
			return
		}
		twoA := shapes[si]
		a := float64(twoA) / 2
		allow := 1e-12 + 1e-14*a
		var xs []float64
		xs = append(xs, 0, math.Copysign(0, -1), -1, math.Inf(-1), 5e-324, 1e-300, 1e-10)
		for _, c := range []float64{1, a} {
			xs = append(xs, math.Nextafter(c, 0), c, math.Nextafter(c, math.Inf(1)))
		}
		for _, ratio := range []float64{0.01, 0.02, 0.05, 0.1, 0.2, 0.3, 0.5, 0.7, 0.8, 0.9, 0.95, 0.99, 1.01, 1.05, 1.1, 1.2, 1.5, 2, 3, 5, 8, 12, 16, 20} {
			xs = append(xs, a*ratio)
		}
		for d := -12.0; d <= 40; d += 0.5 {
			if x := a + d*math.Sqrt(a); x > 0 {
				xs = append(xs, x)
			}
		}
		xs = append(xs, 20*a+200, 0.5, 0.999, 1.001, 2, 700, 709.78, 710, 745, 746)
		// the lower tail: every decade down to 1e-40, every tenth below (small shapes: every decade down to the
		// subnormals), and the floats around the machine-epsilon scales an implementation may cut off at
		for k := 1; k <= 323; k++ {
			if k <= 40 || k%10 == 0 || twoA <= 64 {
				xs = append(xs, math.Pow(10, -float64(k)), 3*math.Pow(10, -float64(k)))
			}
		}
		for _, e := range []int{-1074, -1022, -149, -126, -64, -54, -53, -52, -51, -27, -26} {
			c := math.Ldexp(1, e)
			xs = append(xs, math.Nextafter(c, 0), c, math.Nextafter(c, 1))
		}
		sort.Float64s(xs)
		prev := math.Inf(1)
		localEvals := 0
		localWorst, localAt := 0.0, ""
		for _, x := range xs {
			var got float64
			if pv := common.Catch(func() { got = r.Igamc(a, x) }); pv != nil {
				ctx.Report("Igamc/panic", fmt.Sprintf("Igamc(%v, %v) panicked: %v", a, x, pv), map[string]interface{}{"a": a, "x": x})
				continue
			}
			localEvals++
			want := refmodel.QBig(twoA, x)
			switch {
			case x <= 0:
				regimes.Add("x<=0")
			case x < 1 || x < a:
				regimes.Add("series")
			default:
				regimes.Add("continued fraction")
			}
			if math.IsNaN(got) || got < 0 || got > 1 {
				ctx.Report("Igamc/range", fmt.Sprintf("Igamc(%v, %v) = %v lies outside [0,1]", a, x, got), map[string]interface{}{"a": a, "x": x, "got": got})
				continue
			}
			if x <= 0 && got != 1 {
				ctx.Report("Igamc/nonpositive-x", fmt.Sprintf("Igamc(%v, %v) = %v, must be exactly 1 for x <= 0", a, x, got), map[string]interface{}{"a": a, "x": x, "got": got})
			}
			if d := math.Abs(got - want); d > allow {
				ctx.Report(fmt.Sprintf("Igamc/accuracy/a=%v", bucket(a)), fmt.Sprintf("Igamc(%v, %v) = %.17g, Q(a,x) = %.17g: error %.3g exceeds 1e-12 + 1e-14 a = %.3g", a, x, got, want, d, allow),
					map[string]interface{}{"a": a, "x": x, "got": got, "want": want})
			} else if d/allow > localWorst {
				localWorst, localAt = d/allow, fmt.Sprintf("a=%v x=%v", a, x)
			}
			if got > prev+2*allow {
				ctx.Report("Igamc/monotone", fmt.Sprintf("Igamc(%v, .) increases from %.17g to %.17g at x=%v", a, prev, got, x), map[string]interface{}{"a": a, "x": x})
			}
			prev = got
		}
		mu.Lock()
		evals += localEvals
		if localWorst > worstFrac {
			worstFrac, worstAt = localWorst, localAt
		}
		if len(samples) < 6 && si%(len(shapes)/6+1) == 0 {
			samples = append(samples, map[string]interface{}{"a": a, "arguments": len(xs), "first_arguments": fmt.Sprint(xs[:10])})
		}
		mu.Unlock()
	})
	// the same function while other goroutines evaluate it for other shapes (the parallel workflows and the batch tool
	// do exactly that): Igamc with integer and half-integer shapes, the uniformity statistic and two chi-square
	// runners as concurrent pairs and triples under the controlled scheduler - each result must equal the solitary one
	concExecs := 0
	if m, _, err := c18.PairsOf(ctx, []string{"Igamc(1,.)", "Igamc(7.5,.)", "ThresholdQ", "runner01", "runner11"}); err != nil {
		ctx.Note("concurrent part skipped: the library cannot be instrumented (%v)", err)
		capped = true
	} else {
		for _, res := range m.Results {
			if res.Found != nil {
				ctx.Report("concurrent/"+res.Task.Name, res.Found.Violation, map[string]interface{}{"task": res.Task.Name, "choices": res.Found.Choices})
			}
		}
		for _, e := range m.ToolErrors {
			ctx.Note("tool error (not a violation): %s", e)
			capped = true
		}
		concExecs = m.Execs
	}
	cov := common.Coverage{
		"concurrent_schedules": concExecs,
		"evaluations":          evals,
		"distinct_nontrivial":  len(shapes),
		"rule": "a finite lattice, completely: the listed shapes a (integers and half-integers; thorough: all 10000 in [0.5,5000]) x for each a the arguments {0,-0,-1,-inf,5e-324,1e-300,1e-10}, the three floats around 1 and around a, a*r for 24 ratios in 0.01..20, a+d*sqrt(a) for d=-12..40 step 1/2, 20a+200, the underflow cut-off region 700..746, and the lower tail 10^-k, 3*10^-k (every k<=40, every tenth k<=320; every k<=323 for a<=32) with the floats around 2^e for e in {-1074,-1022,-149,-126,-64,-54..-51,-27,-26}; " +
			"oracle: 192-bit closed forms of Q(a,x) for integer/half-integer a; checks: |Igamc-Q| <= 1e-12+1e-14a, value in [0,1], exactly 1 for x<=0, non-increasing along the lattice up to the allowance; concurrent pairs and triples of Igamc (two shapes), ThresholdQ and two chi-square runners under the controlled scheduler (<= 2 preemptions at accesses to package-level state); distinct = number of shapes",
		"samples":                     samples,
		"shapes":                      len(shapes),
		"worst_fraction_of_allowance": worstFrac,
		"worst_at":                    worstAt,
		"evaluations_per_regime":      regimes.Map(),
		"exhaustive":                  !capped,
	}
	return ctx.Finish("exploration", cov, []string{"(a,x) is a continuum: between lattice points nothing is claimed; the lattice brackets every data-dependent branch of the algorithm (x<1, x<a, underflow cut-off) with adjacent floats",
		"trusted: math/big, math.Erfc for the single erfc term of half-integer shapes"})
}

func bucket(a float64) string {
	switch {
	case a <= 64:
		return "<=64"
	case a <= 1000:
		return "<=1000"
	}
	return ">1000"
}
