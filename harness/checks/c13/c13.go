// Package c13: batch detector report: one complete, correctly-labelled row per sample file (E1 + E2).
package c13

import (
	"bytes"
	"encoding/json"
	"flag"
	"fmt"
	"go/ast"
	"go/parser"
	"go/token"
	"io"
	"log"
	"math"
	"os"
	"os/exec"
	"path/filepath"
	"regexp"
	"sort"
	"strconv"
	"strings"
	"time"

	r "github.com/Trisia/randomness"

	"verif/common"
	"verif/refmodel"
	"verif/e1"
	"verif/enum"
	"verif/explore"
	"verif/vsched"
)

// Row is one report row as produced by a worker.
type Row struct {
	Name string
	P, Q []float64
}

// ScaleHook exposes one scale's header constant and worker function.
type ScaleHook struct {
	Header string
	Rows   func(files []string) []Row // runs the scale's worker on the files (free-running)
}

// Hooks are handed over by the generated main of the instrumented rddetector binary.
type Hooks struct {
	Main   func()
	Scales map[string]ScaleHook // "2E4", "1E6", "1E8"
}

// ---------- header as specification ----------

// Column is one value column of a header.
type Column struct {
	Label string
	Kind  string // P Q P1 Q1 P2 Q2
	Test  string
	Param int
	Extra string // "1" / "0" for longest run, "fwd"/"bwd" for cumulative sums
}

var colRe = regexp.MustCompile(`^\[\s*\d+\]\s+(P1|Q1|P2|Q2|P|Q)\s+(.*)$`)
var numRe = regexp.MustCompile(`[mkd]=(\d+)`)

func parseHeader(h string) (cols []Column, err error) {
	cells := strings.Split(strings.TrimRight(h, "\n"), ",")
	for _, c := range cells[1:] {
		m := colRe.FindStringSubmatch(strings.TrimSpace(c))
		if m == nil {
			return nil, fmt.Errorf("header cell %q not understood", c)
		}
		col := Column{Label: strings.TrimSpace(c), Kind: m[1]}
		rest := m[2]
		if nm := numRe.FindStringSubmatch(rest); nm != nil {
			col.Param, _ = strconv.Atoi(nm[1])
		}
		switch {
		case strings.Contains(rest, "单比特"):
			col.Test = "monobit"
		case strings.Contains(rest, "块内频数"):
			col.Test = "blockfreq"
		case strings.Contains(rest, "扑克"):
			col.Test = "poker"
		case strings.Contains(rest, "重叠"):
			col.Test = "overlapping"
		case strings.Contains(rest, "游程总数"):
			col.Test = "runs"
		case strings.Contains(rest, "游程分布"):
			col.Test = "runsdist"
		case strings.Contains(rest, "最大"):
			col.Test = "longest"
			if strings.Contains(rest, "“0”") || strings.Contains(rest, "\"0\"") {
				col.Extra = "0"
			} else {
				col.Extra = "1"
			}
		case strings.Contains(rest, "二元推导"):
			col.Test = "derivative"
		case strings.Contains(rest, "自相关"):
			col.Test = "autocorr"
		case strings.Contains(rest, "矩阵秩"):
			col.Test = "rank"
		case strings.Contains(rest, "累加和"):
			col.Test = "cusum"
			if strings.Contains(rest, "后向") {
				col.Extra = "bwd"
			} else {
				col.Extra = "fwd"
			}
		case strings.Contains(rest, "近似熵"):
			col.Test = "apen"
		case strings.Contains(rest, "复杂度"):
			col.Test = "lc"
		case strings.Contains(rest, "Maurer"), strings.Contains(rest, "通用统计"):
			col.Test = "maurer"
		case strings.Contains(rest, "傅里叶"):
			col.Test = "dft"
		default:
			return nil, fmt.Errorf("header cell %q names no known test", c)
		}
		cols = append(cols, col)
	}
	return cols, nil
}

// expected computes the library's value for a column on the given bytes; ok=false if the call panics.
func expected(col Column, data []byte, bits []bool, cache map[string][]float64) (v float64, ok bool) {
	key := fmt.Sprint(col.Test, col.Param, col.Extra)
	vals, have := cache[key]
	if !have {
		pv := common.Catch(func() {
			switch col.Test {
			case "monobit":
				p, q := r.MonoBitFrequencyTestBytes(data)
				vals = []float64{p, q}
			case "blockfreq":
				p, q := r.FrequencyWithinBlockProto(bits, col.Param)
				vals = []float64{p, q}
			case "poker":
				p, q := r.PokerTestBytes(data, col.Param)
				vals = []float64{p, q}
			case "overlapping":
				p1, p2, q1, q2 := r.OverlappingTemplateMatchingProto(bits, col.Param)
				vals = []float64{p1, q1, p2, q2}
			case "runs":
				p, q := r.RunsTest(bits)
				vals = []float64{p, q}
			case "runsdist":
				p, q := r.RunsDistributionTest(bits)
				vals = []float64{p, q}
			case "longest":
				p, q := r.LongestRunOfOnesInABlockTest(bits, col.Extra == "1")
				vals = []float64{p, q}
			case "derivative":
				p, q := r.BinaryDerivativeProto(bits, col.Param)
				vals = []float64{p, q}
			case "autocorr":
				p, q := r.AutocorrelationProto(bits, col.Param)
				vals = []float64{p, q}
			case "rank":
				p, q := r.MatrixRankTest(bits)
				vals = []float64{p, q}
			case "cusum":
				p, q := r.CumulativeTest(bits, col.Extra == "fwd")
				vals = []float64{p, q}
			case "apen":
				p, q := r.ApproximateEntropyProto(bits, col.Param)
				vals = []float64{p, q}
			case "lc":
				p, q := r.LinearComplexityProto(bits, col.Param)
				vals = []float64{p, q}
			case "maurer":
				p, q := r.MaurerUniversalTest(bits)
				vals = []float64{p, q}
			case "dft":
				p, q := r.DiscreteFourierTransformTest(bits)
				vals = []float64{p, q}
			}
		})
		if pv != nil {
			vals = nil
		}
		cache[key] = vals
	}
	if vals == nil {
		return 0, false
	}
	switch col.Kind {
	case "P", "P1":
		return vals[0], true
	case "Q", "Q1":
		return vals[1], true
	case "P2":
		return vals[2], true
	case "Q2":
		return vals[3], true
	}
	return 0, false
}

// checkRow compares the values of a row (already split into floats) with the columns' specification.
// It returns the list of mismatching column labels.
func checkRow(cols []Column, vals []float64, data []byte) []string {
	bits := refmodel.Bits(data) // an own expansion: the oracle must not share a conversion cache with the tool
	cache := map[string][]float64{}
	var bad []string
	if len(vals) != len(cols) {
		return []string{fmt.Sprintf("row has %d value columns, the header %d", len(vals), len(cols))}
	}
	for i, c := range cols {
		want, ok := expected(c, data, bits, cache)
		if !ok {
			continue
		}
		if math.IsNaN(vals[i]) || math.Abs(vals[i]-want) > 0.5e-6+1e-9 {
			bad = append(bad, fmt.Sprintf("column %d %q holds %.6f, the library value it names is %.6f", i+1, c.Label, vals[i], want))
		}
	}
	return bad
}

// ---------- sample files ----------

// contents builds file contents whose columns are pairwise distinguishable.
func contents(kind, size int) []byte {
	b := enum.FillerBytes(size, uint64(kind)*7919+13)
	switch kind % 4 {
	case 1: // biased
		for i := range b {
			if i%3 == 0 {
				b[i] |= 0x41
			}
		}
	case 2: // correlated at lag 8/16
		for i := 2; i < len(b); i++ {
			if i%5 == 0 {
				b[i] = b[i-2]
			}
		}
	case 3: // long runs
		for i := 0; i+4 < len(b); i += 97 {
			b[i], b[i+1] = 0xFF, 0xFF
			b[i+2], b[i+3] = 0x00, 0x01
		}
	}
	return b
}

// ---------- discovery of the (scale, header, worker) triples in main.go ----------

type triple struct{ Scale, Header, Worker string }

func discover() ([]triple, error) {
	fset := token.NewFileSet()
	f, err := parser.ParseFile(fset, "/repo/tools/rddetector/main.go", nil, 0)
	if err != nil {
		return nil, err
	}
	var out []triple
	ast.Inspect(f, func(n ast.Node) bool {
		sw, ok := n.(*ast.SwitchStmt)
		if !ok {
			return true
		}
		for _, cl := range sw.Body.List {
			cc := cl.(*ast.CaseClause)
			if len(cc.List) != 1 {
				continue
			}
			lit, ok := cc.List[0].(*ast.BasicLit)
			if !ok {
				continue
			}
			v, err := strconv.ParseFloat(lit.Value, 64)
			if err != nil {
				continue
			}
			scale := map[float64]string{2e4: "2E4", 1e6: "1E6", 1e8: "1E8"}[v]
			if scale == "" {
				continue
			}
			t := triple{Scale: scale}
			for _, s := range cc.Body {
				as, ok := s.(*ast.AssignStmt)
				if !ok || len(as.Lhs) != 1 || len(as.Rhs) != 1 {
					continue
				}
				rid, ok := as.Rhs[0].(*ast.Ident)
				if !ok {
					continue
				}
				if strings.HasPrefix(strings.ToLower(rid.Name), "header") {
					t.Header = rid.Name
				} else if strings.HasPrefix(strings.ToLower(rid.Name), "worker") {
					t.Worker = rid.Name
				}
			}
			if t.Header != "" && t.Worker != "" {
				out = append(out, t)
			}
		}
		return true
	})
	if len(out) == 0 {
		return nil, fmt.Errorf("no (scale, header, worker) case found in main.go")
	}
	return out, nil
}

func generatedMain(ts []triple) string {
	var sb strings.Builder
	sb.WriteString("//go:build go1.18\n\npackage main\n\nimport (\n\t\"verif/checks/c13\"\n\t\"verif/vsched\"\n)\n\n")
	sb.WriteString("func main() {\n\tc13.SubMain(c13.Hooks{Main: verifOrigMain, Scales: map[string]c13.ScaleHook{\n")
	for _, t := range ts {
		fmt.Fprintf(&sb, "\t\t%q: {Header: %s, Rows: func(files []string) []c13.Row { return verifRows(%s, files) }},\n", t.Scale, t.Header, t.Worker)
	}
	sb.WriteString("\t}})\n}\n\n")
	sb.WriteString(`func verifRows(w func(*vsched.Chan[string], *vsched.Chan[*R]), files []string) []c13.Row {
	jobs := vsched.NewChan[string](0)
	out := vsched.NewChan[*R](0)
	vsched.Go(func() { w(jobs, out) })
	var rows []c13.Row
	for _, f := range files {
		jobs.Send(f)
		r := out.Recv1()
		rows = append(rows, c13.Row{Name: r.Name, P: r.P, Q: r.Q})
	}
	jobs.Close()
	return rows
}
`)
	return sb.String()
}

// ---------- sub-process side ----------

// Params of one task.
type Params struct {
	Mode    string `json:"mode"` // columns | sched
	Scale   string `json:"scale"`
	Files   int    `json:"files"`
	Workers int    `json:"workers"`
	DotDirs bool   `json:"dot_dirs"` // the input directory and a sub-directory have names ending in .bin / .dat
	Small   bool   `json:"small"`    // columns mode: 12500-byte files (race pass)
	Stale   bool   `json:"stale"`    // sched mode: a longer report of an earlier run already exists at the report path
	Dup     bool   `json:"dup"`      // two sample files with the same base name and different contents in two sub-directories
	Near    bool   `json:"near"`     // a sample file and five copies that differ from it in one byte each
}

// addNear plants a sample file and five near-copies of the same size, each differing from it in ONE byte (at
// offsets 13, 29, size/3+5, size/2+21, size-11): captures that share almost all of their contents. Each row must
// hold its own file's values. It returns the names.
func addNear(root, in string, nf, size int, data map[string][]byte) []string {
	a := contents(nf+7, size)
	names := []string{"near-a.bin"}
	_ = os.WriteFile(filepath.Join(root, in, names[0]), a, 0o644)
	data[names[0]] = a
	for k, p := range []int{13, 29, size/3 + 5, size/2 + 21, size - 11} {
		b := append([]byte{}, a...)
		b[p] ^= 0xFF
		n := fmt.Sprintf("near-b%d.bin", k)
		_ = os.WriteFile(filepath.Join(root, in, n), b, 0o644)
		data[n] = b
		names = append(names, n)
	}
	return names
}

const dupName = "same.bin"

// addDup plants two more sample files that share a base name (devA/same.bin, devB/same.bin) with different
// contents: the report needs one row for each. It returns the expected rows of that name.
func addDup(root, in string, nf, size int, cols []Column, data map[string][]byte) map[string][][]float64 {
	out := map[string][][]float64{}
	for k, d := range []string{"devA", "devB"} {
		_ = os.MkdirAll(filepath.Join(root, in, d), 0o755)
		b := contents(nf+k, size)
		_ = os.WriteFile(filepath.Join(root, in, d, dupName), b, 0o644)
		data[dupName] = b
		out[dupName] = append(out[dupName], expectedRow(cols, b))
	}
	return out
}

// dupRows: expected rows of base names that several sample files share (nil when there are none).
var dupRows map[string][][]float64

func SubMain(h Hooks) {
	e1.SubMain(map[string]e1.Handler{"C13": func(t e1.Task) (*e1.Result, map[uint64]struct{}) { return handle(h, t) }})
}

func fileSize(scale string) int {
	return map[string]int{"2E4": 2500, "1E6": 125000, "1E8": 12500000}[scale]
}

// makeTree writes nf sample files (nested directory, .bin and .dat, plus a .txt, hidden non-sample files, a hidden and an empty sub-directory).
func makeTree(root string, nf, size int, dotDirs bool) (in string, names []string, data map[string][]byte) {
	data = map[string][]byte{}
	in, sub := "in", "sub"
	if dotDirs {
		in, sub = "in.bin", "sub.dat"
	}
	_ = os.MkdirAll(filepath.Join(root, in, sub, "deeper"), 0o755)
	_ = os.MkdirAll(filepath.Join(root, in, "emptydir"), 0o755)
	if dotDirs {
		_ = os.MkdirAll(filepath.Join(root, in, "empty.bin"), 0o755)
	}
	_ = os.WriteFile(filepath.Join(root, in, "notes.txt"), []byte("not a sample"), 0o644)
	_ = os.WriteFile(filepath.Join(root, in, sub, "readme.md"), []byte("not a sample either"), 0o644)
	// hidden non-sample files and a hidden directory next to the samples (what file managers and version control leave behind):
	// they sort first in every directory, so a walk that stops at them loses every sample of that directory
	_ = os.WriteFile(filepath.Join(root, in, ".DS_Store"), []byte{0, 0, 0, 1, 'B', 'u', 'd', '1'}, 0o644)
	_ = os.WriteFile(filepath.Join(root, in, sub, ".gitkeep"), nil, 0o644)
	_ = os.WriteFile(filepath.Join(root, in, sub, "deeper", ".hidden"), []byte("x"), 0o644)
	_ = os.MkdirAll(filepath.Join(root, in, ".git", "objects"), 0o755)
	_ = os.WriteFile(filepath.Join(root, in, ".git", "config"), []byte("[core]"), 0o644)
	for i := 0; i < nf; i++ {
		var p string
		switch i % 3 {
		case 0:
			p = filepath.Join(in, fmt.Sprintf("s%d.bin", i))
		case 1:
			p = filepath.Join(in, sub, fmt.Sprintf("s%d.dat", i))
		default:
			p = filepath.Join(in, sub, "deeper", fmt.Sprintf("s%d.bin", i))
		}
		b := contents(i, size)
		_ = os.WriteFile(filepath.Join(root, p), b, 0o644)
		names = append(names, filepath.Base(p))
		data[filepath.Base(p)] = b
	}
	return
}

// judgeReport checks a report file against the property.
func judgeReport(report string, header string, cols []Column, data map[string][]byte, expectRows map[string][]float64) string {
	if !strings.HasPrefix(report, header) {
		first := report
		if i := strings.Index(first, "\n"); i >= 0 {
			first = first[:i]
		}
		if len(first) > 80 {
			first = first[:80] + "..."
		}
		return fmt.Sprintf("the report does not start with the scale's header line (first line %q)", first)
	}
	body := strings.TrimPrefix(report, header)
	if body != "" && !strings.HasSuffix(body, "\n") {
		return "the last row is incomplete (no line end)"
	}
	lines := []string{}
	if body != "" {
		lines = strings.Split(strings.TrimSuffix(body, "\n"), "\n")
	}
	seen := map[string]bool{}
	dupSeen := map[string][][]float64{}
	for _, l := range lines {
		cells := strings.Split(l, ",")
		name := strings.TrimSpace(cells[0])
		if _, ok := data[name]; !ok {
			return fmt.Sprintf("row %q does not start with the base name of a sample file", trunc(l, 60))
		}
		alts, isDup := dupRows[name]
		if seen[name] && !isDup {
			return fmt.Sprintf("two rows for sample file %s", name)
		}
		seen[name] = true
		if len(cells)-1 != len(cols) {
			return fmt.Sprintf("row of %s has %d value columns, the header has %d", name, len(cells)-1, len(cols))
		}
		want := expectRows[name]
		if isDup {
			want = nil
			var vals []float64
			for i := range cols {
				v, _ := strconv.ParseFloat(strings.TrimSpace(cells[i+1]), 64)
				vals = append(vals, v)
			}
			dupSeen[name] = append(dupSeen[name], vals)
			if len(dupSeen[name]) > len(alts) {
				return fmt.Sprintf("%d rows named %s, %d sample files have that base name", len(dupSeen[name]), name, len(alts))
			}
		}
		for i := range cols {
			v, err := strconv.ParseFloat(strings.TrimSpace(cells[i+1]), 64)
			if err != nil {
				return fmt.Sprintf("row of %s: value %q under %q is not a number", name, cells[i+1], cols[i].Label)
			}
			if want != nil && !math.IsNaN(want[i]) && math.Abs(v-want[i]) > 0.5e-6+1e-9 {
				return fmt.Sprintf("row of %s: column %d %q holds %.6f, the library value it names is %.6f", name, i+1, cols[i].Label, v, want[i])
			}
		}
	}
	for name, alts := range dupRows {
		if _, ok := data[name]; !ok {
			continue
		}
		rows := dupSeen[name]
		if len(rows) != len(alts) {
			return fmt.Sprintf("%d row(s) named %s, %d sample files in different directories have that base name (one row per file)", len(rows), name, len(alts))
		}
		// two files: the rows must be the two expected rows in either order
		match := func(row, want []float64) bool {
			for i := range want {
				if !math.IsNaN(want[i]) && math.Abs(row[i]-want[i]) > 0.5e-6+1e-9 {
					return false
				}
			}
			return true
		}
		if len(alts) == 2 && !(match(rows[0], alts[0]) && match(rows[1], alts[1]) || match(rows[0], alts[1]) && match(rows[1], alts[0])) {
			return fmt.Sprintf("the two rows named %s do not hold the library values of the two files of that name (one each)", name)
		}
	}
	var missing []string
	for n := range data {
		if !seen[n] {
			missing = append(missing, n)
		}
	}
	sort.Strings(missing)
	if len(missing) > 0 {
		return fmt.Sprintf("no row for sample file(s) %v (%d rows for %d files)", missing, len(lines), len(data))
	}
	return ""
}

func trunc(s string, n int) string {
	if len(s) > n {
		return s[:n] + "..."
	}
	return s
}

func expectedRow(cols []Column, data []byte) []float64 {
	bits := refmodel.Bits(data) // an own expansion: the oracle must not share a conversion cache with the tool
	cache := map[string][]float64{}
	out := make([]float64, len(cols))
	for i, c := range cols {
		v, ok := expected(c, data, bits, cache)
		if !ok {
			v = math.NaN()
		}
		out[i] = v
	}
	return out
}

func handle(h Hooks, t e1.Task) (*e1.Result, map[uint64]struct{}) {
	start := time.Now()
	var p Params
	if err := json.Unmarshal(t.Params, &p); err != nil {
		return &e1.Result{Task: t, ToolError: err.Error()}, nil
	}
	if dn, err := os.OpenFile(os.DevNull, os.O_WRONLY, 0); err == nil {
		os.Stdout = dn
		os.Stderr = dn
	}
	log.SetOutput(io.Discard)
	sh, ok := h.Scales[p.Scale]
	if !ok {
		return &e1.Result{Task: t, ToolError: "scale " + p.Scale + " not discovered in main.go"}, nil
	}
	cols, err := parseHeader(sh.Header)
	if err != nil {
		return &e1.Result{Task: t, ToolError: "header of scale " + p.Scale + ": " + err.Error()}, nil
	}
	base, err := os.MkdirTemp(os.Getenv("VERIF_SCRATCH"), "c13-")
	if err != nil {
		return &e1.Result{Task: t, ToolError: err.Error()}, nil
	}
	defer os.RemoveAll(base)
	if p.Mode == "columns" {
		// drive the scale's worker on small files; every column against the library call its label names
		res := &e1.Result{Task: t, Outcomes: map[string]int{}, Signatures: map[string]int{}, Extra: map[string]int{}}
		size := 25000
		if p.Small {
			size = 12500
		}
		var files []string
		var datas [][]byte
		for k := 0; k < p.Files; k++ {
			b := contents(k, size)
			fn := filepath.Join(base, fmt.Sprintf("c%d.bin", k))
			_ = os.WriteFile(fn, b, 0o644)
			files = append(files, fn)
			datas = append(datas, b)
		}
		var rows []Row
		if pv := common.Catch(func() { rows = sh.Rows(files) }); pv != nil {
			res.Found = &explore.Found{Violation: fmt.Sprintf("the %s worker panicked: %v", p.Scale, pv)}
			return res, nil
		}
		res.Execs = len(rows)
		res.Extra["columns"] = len(cols)
		// distinguishability of the columns over the file family
		exp := make([][]float64, len(datas))
		for k := range datas {
			exp[k] = expectedRow(cols, datas[k])
		}
		indist := 0
		for a := 0; a < len(cols); a++ {
			for b2 := a + 1; b2 < len(cols); b2++ {
				same := true
				for k := range exp {
					if math.Abs(exp[k][a]-exp[k][b2]) > 1e-6 {
						same = false
					}
				}
				if same && !(cols[a].Test == cols[b2].Test && cols[a].Param == cols[b2].Param && cols[a].Extra == cols[b2].Extra) {
					indist++
				}
			}
		}
		res.Extra["indistinguishable_column_pairs"] = indist
		var bad []string
		for k, row := range rows {
			if row.Name != filepath.Base(files[k]) {
				bad = append(bad, fmt.Sprintf("row %d is named %q, the file is %q", k, row.Name, filepath.Base(files[k])))
			}
			var vals []float64
			for j := range row.P {
				vals = append(vals, row.P[j])
				if j < len(row.Q) {
					vals = append(vals, row.Q[j])
				}
			}
			bad = append(bad, checkRow(cols, vals, datas[k])...)
			if len(bad) > 0 {
				break
			}
		}
		res.Transitions = len(rows) * len(cols)
		res.Signatures[fmt.Sprintf("scale %s: %d columns", p.Scale, len(cols))] = 1
		if len(bad) > 0 {
			res.Found = &explore.Found{Violation: fmt.Sprintf("scale %s: %s", p.Scale, strings.Join(bad, "; "))}
		}
		res.WallS = time.Since(start).Seconds()
		return res, map[uint64]struct{}{uint64(len(cols)): {}}
	}
	if p.Mode == "colsched" {
		// the scale's worker under the controlled scheduler on one small file: scheduling points at channel
		// operations, goroutine starts and every statement that touches a variable shared with a goroutine
		size := 25000
		if p.Small {
			size = 12500
		}
		b := contents(5, size)
		fn := filepath.Join(base, "cs.bin")
		_ = os.WriteFile(fn, b, 0o644)
		exp := expectedRow(cols, b)
		vsched.MaxTouches = 400
		cfg := explore.Config{Name: t.Name, Bound: t.Bound, CostAll: true, Shard: t.Shard, NShards: t.NShards, MaxExecs: t.MaxExec,
			Opt: vsched.Options{NumCPU: 2, Policy: t.Policy, MaxSteps: 400000}}
		if t.Budget > 0 {
			cfg.Deadline = start.Add(time.Duration(t.Budget * float64(time.Second)))
		}
		cfg.NewExec = func() (func(), func(*vsched.Exec) explore.Verdict) {
			var rows []Row
			body := func() { rows = sh.Rows([]string{fn}) }
			check := func(x *vsched.Exec) explore.Verdict {
				v := explore.Verdict{Signature: x.Outcome.String()}
				switch x.Outcome {
				case vsched.OutPanic:
					v.Violation = "panic: " + x.PanicVal
				case vsched.OutDeadlock:
					v.Violation = fmt.Sprintf("%s: %v", x.Outcome, x.Blocked)
				case vsched.OutHorizon:
					v.Violation = "livelock: step horizon exceeded"
				default:
					// goroutines still blocked when the worker's rows are in are ended by the process exit in the real tool
					v.Persistent = x.Outcome == vsched.OutLeak && !x.LeakFromOnce
					if len(rows) != 1 {
						v.Violation = fmt.Sprintf("%d rows for one file", len(rows))
						break
					}
					var vals []float64
					for j := range rows[0].P {
						vals = append(vals, rows[0].P[j])
						if j < len(rows[0].Q) {
							vals = append(vals, rows[0].Q[j])
						}
					}
					if len(vals) != len(cols) {
						v.Violation = fmt.Sprintf("row has %d value columns, the header %d", len(vals), len(cols))
						break
					}
					for i := range cols {
						if !math.IsNaN(exp[i]) && math.Abs(vals[i]-exp[i]) > 0.5e-6+1e-9 {
							v.Violation = fmt.Sprintf("scale %s: column %d %q holds %.6f, the library value it names is %.6f", p.Scale, i+1, cols[i].Label, vals[i], exp[i])
							break
						}
					}
				}
				return v
			}
			return body, check
		}
		st := explore.Explore(cfg)
		return e1.FromStats(t, st, time.Since(start)), st.States
	}
	// sched: the real main() under the controlled scheduler
	inDir, _, data := makeTree(base, p.Files, fileSize(p.Scale), p.DotDirs)
	expRows := map[string][]float64{}
	for n, b := range data {
		expRows[n] = expectedRow(cols, b)
	}
	if p.Near {
		for _, n := range addNear(base, inDir, p.Files, fileSize(p.Scale), data) {
			expRows[n] = expectedRow(cols, data[n])
		}
	}
	if p.Dup {
		dupRows = addDup(base, inDir, p.Files, fileSize(p.Scale), cols, data)
	}
	execNo := 0
	cfg := explore.Config{Name: t.Name, Bound: t.Bound, CostAll: t.CostAll, Shard: t.Shard, NShards: t.NShards, MaxExecs: t.MaxExec,
		Opt: vsched.Options{NumCPU: t.W, Policy: t.Policy, MaxSteps: 400000, ExitOnMainReturn: true}}
	if t.Budget > 0 {
		cfg.Deadline = start.Add(time.Duration(t.Budget * float64(time.Second)))
	}
	cfg.NewExec = func() (func(), func(*vsched.Exec) explore.Verdict) {
		execNo++
		rep := filepath.Join(base, fmt.Sprintf("report%d.csv", execNo))
		if p.Stale {
			// a longer report of an earlier run is already there: it must be replaced, not overwritten in place
			_ = os.WriteFile(rep, []byte(sh.Header+strings.Repeat("stale.bin, 0.500000, 0.500000\n", 40)), 0o600)
		}
		os.Args = []string{"rddetector", "-i", filepath.Join(base, inDir), "-o", rep, "-n", fmt.Sprint(p.Workers)}
		if f := flag.Lookup("v"); f != nil {
			_ = flag.Set("v", "false")
		}
		body := func() { h.Main() }
		check := func(x *vsched.Exec) explore.Verdict {
			b, _ := os.ReadFile(rep)
			_ = os.Remove(rep)
			v := explore.Verdict{Signature: fmt.Sprintf("%s rows=%d", x.Outcome, bytes.Count(b, []byte("\n"))-1)}
			switch x.Outcome {
			case vsched.OutPanic:
				v.Violation = "panic: " + x.PanicVal
			case vsched.OutDeadlock:
				v.Violation = fmt.Sprintf("the detector never terminates: %v", x.Blocked)
			case vsched.OutHorizon:
				v.Violation = "livelock: step horizon exceeded"
			default:
				if msg := judgeReport(string(b), sh.Header, cols, data, expRows); msg != "" {
					v.Violation = "at process exit: " + msg
				}
			}
			return v
		}
		return body, check
	}
	st := explore.Explore(cfg)
	return e1.FromStats(t, st, time.Since(start)), st.States
}

// ---------- parent side ----------

func Run(ctx *common.Ctx) int {
	quick := ctx.Quick()
	ts, derr := discover()
	if derr != nil {
		ctx.Note("discovery of the per-scale workers failed (%v); falling back to the conventional names", derr)
		ts = []triple{{"2E4", "Header_2E4", "worker_2E4"}, {"1E6", "Header_1E6", "worker_1E6"}, {"1E8", "Header_1E8", "worker_1E8"}}
	}
	info, err := e1.Build(ctx, "rddetector", []e1.PkgSpec{{Dir: "/repo/tools/rddetector", RenameMain: "verifOrigMain", FileOps: true, Touch: true, Extra: map[string]string{"verif_main.go": generatedMain(ts)}}},
		"github.com/Trisia/randomness/tools/rddetector", false)
	if err != nil {
		ctx.Printf("C13: cannot build the instrumented detector: %v\n", err)
		return 2
	}
	_ = os.Setenv("VERIF_SCRATCH", ctx.Work)
	var tasks []e1.Task
	for _, t := range ts {
		nf := 8
		if t.Scale == "1E8" {
			nf = 4 // linear complexity m=5000 on 200000 bits costs seconds per file
		}
		p, _ := json.Marshal(Params{Mode: "columns", Scale: t.Scale, Files: nf})
		tasks = append(tasks, e1.Task{Check: "C13", Name: "c13/columns/" + t.Scale, Params: p, NShards: 1})
	}
	goCount := goStatements()
	for _, t := range ts {
		// the worker itself under the scheduler: always for the two cheap scales; for 10^8 (seconds per execution)
		// when its worker starts goroutines beyond the final hand-off, or in thorough
		if t.Scale == "1E8" && quick && goCount[t.Worker] <= 1 {
			continue
		}
		for _, pol := range []int{0, 3} {
			p, _ := json.Marshal(Params{Mode: "colsched", Scale: t.Scale, Small: t.Scale == "1E8"})
			tk := e1.Task{Check: "C13", Name: fmt.Sprintf("c13/colsched/%s/b1/p%d", t.Scale, pol), Params: p, Bound: 1, Policy: pol, NShards: 1, CostAll: true}
			if t.Scale == "1E8" {
				tk.MaxExec = 120
			}
			tasks = append(tasks, tk)
		}
	}
	for _, F := range []int{1, 2, 3} {
		for _, nW := range []int{1, 2, 3, 64} {
			if nW == 64 && (F != 3 || quick) {
				continue
			}
			bound, shards := 1, 1
			if !quick && F <= 2 && nW <= 2 {
				bound, shards = 2, 8
			}
			if !quick && F == 2 && nW == 2 {
				bound, shards = 3, 16 // the smaller configurations deeper
			}
			if !quick && F == 1 && nW <= 2 {
				bound, shards = 4, 16
			}
			if quick && F == 3 && nW == 3 {
				shards = 4
			}
			p, _ := json.Marshal(Params{Mode: "sched", Scale: "2E4", Files: F, Workers: nW, Stale: (F+nW)%2 == 1})
			for sh := 0; sh < shards; sh++ {
				tasks = append(tasks, e1.Task{Check: "C13", Name: fmt.Sprintf("c13/sched/F%d/n%d/b%d", F, nW, bound), Params: p, Bound: bound, W: 4, Shard: sh, NShards: shards, CostAll: true})
			}
			if F == 2 && nW == 2 {
				// input directory and a sub-directory whose own names end in .bin / .dat: they are not samples
				pd, _ := json.Marshal(Params{Mode: "sched", Scale: "2E4", Files: F, Workers: nW, DotDirs: true})
				tasks = append(tasks, e1.Task{Check: "C13", Name: fmt.Sprintf("c13/sched-dotdirs/F%d/n%d/b1", F, nW), Params: pd, Bound: 1, W: 4, NShards: 1, CostAll: true})
			}
			if F == 1 && nW <= 2 {
				// a sample file and five copies that differ from it in one byte each
				pn, _ := json.Marshal(Params{Mode: "sched", Scale: "2E4", Files: F, Workers: nW, Near: true})
				tasks = append(tasks, e1.Task{Check: "C13", Name: fmt.Sprintf("c13/sched-nearcopies/F%d+6/n%d/b1", F, nW), Params: pn, Bound: 1, W: 4, NShards: 1, CostAll: true})
			}
			if F == 1 && nW <= 2 {
				// two more sample files share a base name in two sub-directories: one row each
				pd, _ := json.Marshal(Params{Mode: "sched", Scale: "2E4", Files: F, Workers: nW, Dup: true})
				tasks = append(tasks, e1.Task{Check: "C13", Name: fmt.Sprintf("c13/sched-samename/F%d+2/n%d/b1", F, nW), Params: pd, Bound: 1, W: 4, NShards: 1, CostAll: true})
			}
			if F >= 2 && nW >= 2 && nW <= 3 {
				// the same under the delay-bounded default policy (a preempted thread stays behind until all others block)
				tasks = append(tasks, e1.Task{Check: "C13", Name: fmt.Sprintf("c13/sched/F%d/n%d/b1/p3", F, nW), Params: p, Bound: 1, Policy: 3, W: 4, NShards: 1, CostAll: true})
			}
		}
	}
	if !quick {
		// ladder of deviation bounds for the smallest configuration: distinct scheduler-visible states per bound
		for _, nW := range []int{1, 2} {
			pl, _ := json.Marshal(Params{Mode: "sched", Scale: "2E4", Files: 1, Workers: nW})
			for b := 1; b <= 6; b++ {
				for sh := 0; sh < 16; sh++ {
					tasks = append(tasks, e1.Task{Check: "C13", Name: fmt.Sprintf("c13/ladder/F1/n%d/b%d", nW, b), Params: pl, Bound: b, W: 4, Shard: sh, NShards: 16, CostAll: true, TrackStates: true})
				}
			}
		}
	}
	ctx.Printf("C13: %d tasks; discovered %v (instrumented constructs: %v)\n", len(tasks), ts, info.Counts)
	m := e1.RunTasks(ctx, info.Bin, tasks, 0, false)
	var samples []interface{}
	colCount := map[string]int{}
	for _, res := range m.Results {
		if res.Found != nil {
			key := res.Task.Name
			if i := strings.LastIndex(key, "/b"); i > 0 {
				key = key[:i]
			}
			if strings.HasPrefix(key, "c13/columns/") {
				// one finding per mislabelled / wrong column
				for _, part := range strings.Split(res.Found.Violation, "; ") {
					k2 := key
					if i := strings.Index(part, "column "); i >= 0 {
						if j := strings.Index(part[i:], " holds"); j > 0 {
							k2 = key + "/" + part[i:i+j]
						}
					}
					ctx.Report(k2, part, map[string]interface{}{"task": res.Task})
				}
			} else {
				ctx.Report(key+"/"+classify(res.Found.Violation), fmt.Sprintf("%s: %s", key, res.Found.Violation), map[string]interface{}{"task": res.Task, "choices": res.Found.Choices, "outcome": res.Found.Outcome, "blocked": res.Found.Blocked, "panic": res.Found.PanicVal})
			}
		}
		if c, ok := res.Extra["columns"]; ok {
			colCount[res.Task.Name] = c
			samples = append(samples, map[string]interface{}{"task": res.Task.Name, "columns_compared": c, "files": 8, "indistinguishable_column_pairs": res.Extra["indistinguishable_column_pairs"]})
		} else if len(samples) < 6 && res.Execs > 1 {
			samples = append(samples, map[string]interface{}{"task": res.Task.Name, "executions": res.Execs, "schedule_choice_vector(prefix)": res.Sample, "outcomes": res.Outcomes})
		}
	}
	for _, e := range m.ToolErrors {
		ctx.Note("tool error (not a violation): %s", e)
	}
	// ---------- race pass: every scale's worker, free-running under the race detector ----------
	raceRuns := 0
	if rinfo, rerr := e1.Build(ctx, "rddetector-race", []e1.PkgSpec{{Dir: "/repo/tools/rddetector", RenameMain: "verifOrigMain", FileOps: true, Extra: map[string]string{"verif_main.go": generatedMain(ts)}}},
		"github.com/Trisia/randomness/tools/rddetector", true); rerr != nil {
		ctx.Note("race build of the detector failed: %v", rerr)
	} else {
		for _, t := range ts {
			if ctx.Expired() || (quick && t.Scale != "2E4" && goCount[t.Worker] <= 1) {
				continue
			}
			p, _ := json.Marshal(Params{Mode: "columns", Scale: t.Scale, Files: 2, Small: true})
			tf := filepath.Join(ctx.Work, "race-task-"+t.Scale+".json")
			rf := filepath.Join(ctx.Work, "race-res-"+t.Scale+".json")
			tb, _ := json.Marshal(e1.Task{Check: "C13", Name: "c13/race/" + t.Scale, Params: p, NShards: 1})
			_ = os.WriteFile(tf, tb, 0o644)
			cmd := exec.Command(rinfo.Bin, "C13", "--task", tf, "--result", rf)
			cmd.Env = append(os.Environ(), "GORACE=halt_on_error=0 exitcode=0")
			out, err := cmd.CombinedOutput()
			raceRuns++
			if n := strings.Count(string(out), "WARNING: DATA RACE"); n > 0 {
				i := strings.Index(string(out), "WARNING: DATA RACE")
				rep := string(out)[i:]
				if len(rep) > 2500 {
					rep = rep[:2500]
				}
				ctx.Report("race/"+t.Scale, fmt.Sprintf("the race detector reports %d data race(s) while the %s worker processes two files", n, t.Scale), map[string]interface{}{"scale": t.Scale, "report": rep})
			} else if err != nil {
				ctx.Note("race pass for scale %s ended with %v", t.Scale, err)
			}
			_ = os.Remove(tf)
			_ = os.Remove(rf)
		}
	}
	// ---------- end-to-end with the built binary ----------
	e2e := 0
	det, berr := e1.BuildPlain(ctx, "rddetector.bin", "github.com/Trisia/randomness/tools/rddetector", false)
	if berr != nil {
		ctx.Note("cannot build rddetector for the end-to-end part: %v", berr)
	} else {
		type cfg struct {
			scale   string
			files   int
			workers int
			dot     bool
		}
		cfgs := []cfg{{"2E4", 1, 1, false}, {"2E4", 5, 4, false}, {"2E4", 33, 64, false}, {"2E4", 7, 3, true}, {"1E6", 1, 4, false}, {"1E6", 5, 64, false}}
		if !quick {
			cfgs = append(cfgs, cfg{"1E6", 33, 4, false}, cfg{"2E4", 33, 1, false}, cfg{"1E6", 4, 2, true})
		}
		hdrs := headersFromSource(ts)
		for ci, c := range cfgs {
			if ctx.Expired() {
				break
			}
			dir := filepath.Join(ctx.Work, fmt.Sprintf("c13e2e%d", ci))
			inDir, _, data := makeTree(dir, c.files, fileSize(c.scale), c.dot)
			rep := filepath.Join(dir, "out", "report.csv")
			if ci%2 == 1 {
				_ = os.MkdirAll(filepath.Dir(rep), 0o755)
				_ = os.WriteFile(rep, []byte(strings.Repeat("stale-row-of-an-earlier-longer-report.bin, 0.123456, 0.654321\n", 5000)), 0o600)
			}
			cmd := exec.Command(det, "-i", filepath.Join(dir, inDir), "-o", rep, "-n", fmt.Sprint(c.workers))
			cmd.Dir = dir
			cmd.Stdout, cmd.Stderr = io.Discard, io.Discard
			err := runTimeout(cmd, 20*time.Minute)
			e2e++
			b, _ := os.ReadFile(rep)
			key := fmt.Sprintf("e2e/%s/F%d/n%d/dotdirs=%v", c.scale, c.files, c.workers, c.dot)
			hdr := hdrs[c.scale]
			cols, herr := parseHeader(hdr)
			switch {
			case err != nil:
				ctx.Report(key+"/exit", fmt.Sprintf("rddetector on %d %s files with -n %d: %v", c.files, c.scale, c.workers, err), nil)
			case hdr == "" || herr != nil:
				ctx.Note("header of scale %s could not be read from the source (%v); end-to-end row check skipped", c.scale, herr)
			default:
				expRows := map[string][]float64{}
				for n, d := range data {
					expRows[n] = expectedRow(cols, d)
				}
				if msg := judgeReport(string(b), hdr, cols, data, expRows); msg != "" {
					ctx.Report(key+"/"+classify(msg), fmt.Sprintf("rddetector on %d %s files with -n %d: %s", c.files, c.scale, c.workers, msg), nil)
				}
			}
			_ = os.RemoveAll(dir)
		}
	}
	samples = append(samples, map[string]interface{}{"family": "end-to-end", "runs": e2e, "configs": "2*10^4-bit and 10^6-bit directories of 1, 5, 33 files (nested, .bin and .dat, a .txt, hidden non-sample files (.DS_Store, .gitkeep, .hidden, .git/config) and an empty directory present) with -n 1, 4, 64"})
	sigs := []string{}
	for k := range m.Signatures {
		sigs = append(sigs, k)
	}
	sort.Strings(sigs)
	cov := common.Coverage{
		"distinct_states_per_bound_ladder": m.StatesPerTask,
		"states":                           maxInt(len(m.States), 1),
		"transitions":                      maxInt(m.Transitions, 1),
		"traces_validated_against_impl":    m.Execs,
		"evaluations":                      m.Execs + e2e,
		"distinct_nontrivial":              len(m.States),
		"samples":                          samples,
		"rule": "columns: each scale's header is parsed into (test, P/Q/P1/Q1/P2/Q2, parameter) columns and is the specification; the scale's worker (discovered from main's switch) is driven on 8 files of 25000 bytes and every column compared to 6 decimals with the library call its label names; " +
			"schedules: the real (instrumented) main() with os.Args set runs on F in {1,2,3} 20000-bit files x n in {1,2,3(,64)} workers; every schedule with at most d non-default scheduling decisions; main's return is process exit and the report is judged at that instant (header, one complete row per file, values); end-to-end runs of the built binary",
		"outcome_signatures":       sigs,
		"columns_per_scale":        colCount,
		"tasks":                    len(m.Results),
		"caps_hit":                 m.Capped,
		"tool_errors":              m.ToolErrors,
		"instrumentation":          info.Counts,
		"max_points_per_execution": m.MaxPoints,
		"end_to_end_runs":          e2e,
		"race_pass_runs":           raceRuns,
		"bounds":                   "deviation bound 1 (thorough: 4 for F=1 with n<=2, 3 for F=2 with n=2, 2 for the other F<=2, n<=2); F<=3 files; n<=3 workers (64 with F=3 in thorough)",
		"exhaustive":               len(m.Capped) == 0 && len(m.ToolErrors) == 0,
	}
	return ctx.Finish("model_checking", cov, []string{"file writes of the report, channel operations, WaitGroup operations and goroutine starts are scheduling points; the tests themselves run uninterrupted (they are pure, C18)",
		"the 10^8-bit scale is exercised through its worker on 25000-byte files (a random 10^8-bit file costs about 17 minutes in linear complexity alone)",
		"directories whose own names end in .bin/.dat (input root, a sub-directory, an empty one) are part of the family since round 2 of the seeded changes"})
}

// goStatements counts the go statements per top-level function of the detector package.
func goStatements() map[string]int {
	out := map[string]int{}
	fset := token.NewFileSet()
	pkgs, err := parser.ParseDir(fset, "/repo/tools/rddetector", nil, 0)
	if err != nil {
		return out
	}
	for _, pkg := range pkgs {
		for _, f := range pkg.Files {
			for _, d := range f.Decls {
				if fd, ok := d.(*ast.FuncDecl); ok && fd.Body != nil {
					ast.Inspect(fd.Body, func(n ast.Node) bool {
						if _, ok := n.(*ast.GoStmt); ok {
							out[fd.Name.Name]++
						}
						return true
					})
				}
			}
		}
	}
	return out
}

// headersFromSource evaluates the header constants from the source text (string concatenations of literals).
func headersFromSource(ts []triple) map[string]string {
	out := map[string]string{}
	fset := token.NewFileSet()
	pkgs, err := parser.ParseDir(fset, "/repo/tools/rddetector", nil, 0)
	if err != nil {
		return out
	}
	consts := map[string]string{}
	for _, pkg := range pkgs {
		for _, f := range pkg.Files {
			for _, d := range f.Decls {
				gd, ok := d.(*ast.GenDecl)
				if !ok || gd.Tok != token.CONST {
					continue
				}
				for _, sp := range gd.Specs {
					vs := sp.(*ast.ValueSpec)
					for i, n := range vs.Names {
						if i < len(vs.Values) {
							if s, ok := evalString(vs.Values[i]); ok {
								consts[n.Name] = s
							}
						}
					}
				}
			}
		}
	}
	for _, t := range ts {
		out[t.Scale] = consts[t.Header]
	}
	return out
}

func evalString(e ast.Expr) (string, bool) {
	switch x := e.(type) {
	case *ast.BasicLit:
		if x.Kind == token.STRING {
			s, err := strconv.Unquote(x.Value)
			return s, err == nil
		}
	case *ast.BinaryExpr:
		if x.Op == token.ADD {
			a, ok1 := evalString(x.X)
			b, ok2 := evalString(x.Y)
			return a + b, ok1 && ok2
		}
	case *ast.ParenExpr:
		return evalString(x.X)
	}
	return "", false
}

func classify(msg string) string {
	switch {
	case strings.Contains(msg, "no row for"):
		return "missing-row"
	case strings.Contains(msg, "incomplete"):
		return "incomplete-row"
	case strings.Contains(msg, "two rows"):
		return "duplicate-row"
	case strings.Contains(msg, "value columns"):
		return "column-count"
	case strings.Contains(msg, "holds"):
		return "wrong-value"
	case strings.Contains(msg, "never terminates"):
		return "deadlock"
	case strings.Contains(msg, "panic"):
		return "panic"
	case strings.Contains(msg, "header"):
		return "header"
	}
	return "other"
}

func runTimeout(cmd *exec.Cmd, d time.Duration) error {
	if err := cmd.Start(); err != nil {
		return err
	}
	done := make(chan error, 1)
	go func() { done <- cmd.Wait() }()
	select {
	case err := <-done:
		return err
	case <-time.After(d):
		_ = cmd.Process.Kill()
		return fmt.Errorf("still running after %s (killed)", d)
	}
}

func maxInt(a, b int) int {
	if a > b {
		return a
	}
	return b
}

// DebugRace builds the race variant and prints the raw output of one columns run (development aid).
func DebugRace(ctx *common.Ctx) string {
	ts, _ := discover()
	rinfo, rerr := e1.Build(ctx, "rddetector-race", []e1.PkgSpec{{Dir: "/repo/tools/rddetector", RenameMain: "verifOrigMain", FileOps: true, Extra: map[string]string{"verif_main.go": generatedMain(ts)}}},
		"github.com/Trisia/randomness/tools/rddetector", true)
	if rerr != nil {
		return rerr.Error()
	}
	p, _ := json.Marshal(Params{Mode: "columns", Scale: "1E6", Files: 2, Small: true})
	tf := filepath.Join(ctx.Work, "race-task.json")
	rf := filepath.Join(ctx.Work, "race-res.json")
	tb, _ := json.Marshal(e1.Task{Check: "C13", Name: "c13/race", Params: p, NShards: 1})
	_ = os.WriteFile(tf, tb, 0o644)
	cmd := exec.Command(rinfo.Bin, "C13", "--task", tf, "--result", rf)
	cmd.Env = append(os.Environ(), "GORACE=halt_on_error=0 exitcode=0")
	out, err := cmd.CombinedOutput()
	res, _ := os.ReadFile(rf)
	return fmt.Sprintf("err=%v\nout=%s\nres=%s", err, out, res)
}
