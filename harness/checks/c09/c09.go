// Package c09: a failing random source yields a prompt (false, error), never a hang or a pass.
// Sequential workflows and SingleDetect: every fault point enumerated in-process (E3).
// Parallel workflows: every fault index x kind under the controlled scheduler (E1), where a hang
// is a deadlock of the model (no enabled thread), not a wall-clock timeout.
package c09

import (
	"encoding/json"
	"fmt"
	"io"
	"sync"
	"sync/atomic"

	"github.com/Trisia/randomness/detect"

	"verif/checks/fast"
	"verif/common"
	"verif/e1"
	"verif/seam"
	"verif/wf"
)

type byteFault struct {
	Offset int
	Kind   string // end | unexpected | custom | together
	Sticky bool
	Base   int // base read size (0 = full)
}

func (f byteFault) String() string {
	st := "transient"
	if f.Sticky {
		st = "sticky"
	}
	return fmt.Sprintf("%s,%s@byte%d,reads<=%d", f.Kind, st, f.Offset, f.Base)
}

func (f byteFault) err() error {
	switch f.Kind {
	case "end":
		return io.EOF
	case "unexpected":
		return io.ErrUnexpectedEOF
	case "errlist":
		return fast.ErrUnhashable
	}
	return fast.ErrCustom
}

// source delivering the stream up to Offset, then failing.
func byteFaultSource(data []byte, f byteFault) *seam.Source {
	src := &seam.Source{Data: data, Sticky: f.Sticky}
	fired := false
	src.Policy = func(call, req, rem int) (seam.Answer, bool) {
		pos := len(data) - rem
		n := req
		if f.Base > 0 && n > f.Base {
			n = f.Base
		}
		if fired {
			return seam.Answer{N: n}, true
		}
		if pos+n <= f.Offset && !(pos == f.Offset) {
			return seam.Answer{N: n}, true
		}
		// this read reaches the fault offset
		k := f.Offset - pos
		if k > 0 && f.Kind != "together" {
			return seam.Answer{N: k}, true // deliver up to the offset; the error comes with the next call
		}
		fired = true
		return seam.Answer{N: k, Err: f.err()}, true
	}
	return src
}

func Run(ctx *common.Ctx) int {
	quick := ctx.Quick()
	var evals int64
	sigs := common.NewCounter()
	var samples []interface{}
	var smu sync.Mutex
	addSample := func(v interface{}) {
		smu.Lock()
		if len(samples) < 6 {
			samples = append(samples, v)
		}
		smu.Unlock()
	}
	seam.InstallStubs()
	// ---------- part A: sequential workflows, every fault point ----------
	type seqJob struct {
		w *wf.WF
		f byteFault
	}
	var jobs []seqJob
	kinds := []string{"end", "unexpected", "custom", "together", "errlist"}
	for wi := range wf.All {
		w := &wf.All[wi]
		var offs []int
		if w.Name == "Period" {
			for b := 0; b < w.S*w.N; b++ {
				offs = append(offs, b)
			}
		} else {
			for k := 0; k < w.S; k++ {
				offs = append(offs, k*w.N, k*w.N+1, k*w.N+w.N/2, (k+1)*w.N-1)
			}
		}
		for oi, b := range offs {
			for ki, kind := range kinds {
				for _, sticky := range []bool{true, false} {
					for _, base := range []int{0, 997, (w.N + 1) / 2} {
						if quick {
							// quick: every offset with one (kind, stickiness, base) combination chosen round-robin,
							// every combination at every 64th offset
							if oi%64 != 0 && !(ki == oi%5 && sticky == (oi%2 == 0) && base == []int{0, 997, (w.N + 1) / 2}[oi%3]) {
								continue
							}
						}
						jobs = append(jobs, seqJob{w, byteFault{Offset: b, Kind: kind, Sticky: sticky, Base: base}})
					}
				}
			}
		}
	}
	sc := map[string]*seam.Scenario{}
	for wi := range wf.All {
		sc[wf.All[wi].Name] = seam.NewScenario("all-pass", wf.All[wi].S)
	}
	pools := map[string]*sync.Pool{}
	for wi := range wf.All {
		w := &wf.All[wi]
		pools[w.Name] = &sync.Pool{New: func() interface{} {
			r := seam.NewRun(sc[w.Name])
			b := r.Stream(w.S, w.N)
			r.Close()
			return b
		}}
	}
	capped := false
	common.ParFor(len(jobs), func(i int) {
		if ctx.Expired() {
			capped = true
			return
		}
		j := jobs[i]
		run := seam.NewRun(sc[j.w.Name])
		defer run.Close()
		base := pools[j.w.Name].Get().([]byte)
		defer pools[j.w.Name].Put(base)
		run.PatchStream(base, j.w.S, j.w.N)
		src := byteFaultSource(base, j.f)
		var v bool
		var err error
		pv := common.Catch(func() { v, err = j.w.Seq(src) })
		atomic.AddInt64(&evals, 1)
		sigs.Add(fmt.Sprintf("%s/%s/sample%d/%s", j.w.Name, j.f.Kind, j.f.Offset/j.w.N, posClass(j.f.Offset%j.w.N, j.w.N)))
		key := fmt.Sprintf("seq/%s/%s", j.w.Name, j.f)
		rep := map[string]interface{}{"workflow": j.w.Name, "fault": j.f}
		switch {
		case pv != nil:
			ctx.Report(key, fmt.Sprintf("%sDetect panicked: %v", j.w.Name, pv), rep)
		case v || err == nil:
			ctx.Report(key, fmt.Sprintf("%sDetect returned (%v, %v) although the source failed (%s)", j.w.Name, v, err, j.f), rep)
		}
		if i%20011 == 0 {
			addSample(map[string]interface{}{"workflow": j.w.Name + "Detect", "fault": j.f.String(), "returned": fmt.Sprint(v, " ", err)})
		}
	})
	seqEvals := evals
	// SingleDetect: every byte offset
	var sjobs []struct {
		nb int
		f  byteFault
	}
	for _, nb := range []int{16, 40, 1280, 4096} {
		for b := 0; b < nb; b++ {
			for _, kind := range kinds {
				for _, sticky := range []bool{true, false} {
					for _, base := range []int{0, 1, 7} {
						sjobs = append(sjobs, struct {
							nb int
							f  byteFault
						}{nb, byteFault{Offset: b, Kind: kind, Sticky: sticky, Base: base}})
					}
				}
			}
		}
	}
	common.ParFor(len(sjobs), func(i int) {
		j := sjobs[i]
		data := make([]byte, j.nb+8)
		for k := range data {
			data[k] = byte(k*37 + 11)
		}
		src := byteFaultSource(data, j.f)
		var v bool
		var err error
		pv := common.Catch(func() { v, err = detect.SingleDetect(src, j.nb) })
		atomic.AddInt64(&evals, 1)
		sigs.Add(fmt.Sprintf("Single%d/%s/%s", j.nb, j.f.Kind, posClass(j.f.Offset, j.nb)))
		key := fmt.Sprintf("single/%d/%s", j.nb, j.f)
		switch {
		case pv != nil:
			ctx.Report(key, fmt.Sprintf("SingleDetect(%d) panicked: %v", j.nb, pv), j)
		case v || err == nil:
			ctx.Report(key, fmt.Sprintf("SingleDetect(%d) returned (%v, %v) although the source failed (%s)", j.nb, v, err, j.f), j)
		}
	})
	seam.Restore()
	ctx.Printf("C09: sequential part: %d fault runs (%d workflow, %d single-shot)\n", evals, seqEvals, evals-seqEvals)

	// ---------- part B: parallel workflows under the controlled scheduler ----------
	info, err := fast.BuildInstrumented(ctx)
	if err != nil {
		ctx.Note("the parallel workflows cannot be instrumented (%v); falling back to free-running executions", err)
		cov := fast.FreeRunning(ctx, "c09", []fast.SrcSpec{{Kind: "fault", Index: 0, Index2: -1, Err: "eof", Sticky: true}, {Kind: "fault", Index: 7, Index2: -1, Err: "custom"}, {Kind: "fault", Index: 19, Index2: -1, Err: "partialhalf"}}, firstLine(err.Error()))
		cov["evaluations"] = cov["evaluations"].(int) + int(evals)
		cov["distinct_nontrivial"] = sigs.Len() + 2
		cov["sequential_part"] = "complete as in normal mode"
		return ctx.Finish("fault_enumeration", cov, []string{"degraded mode for the parallel workflows: schedules sampled by the Go runtime"})
	}
	errKinds := []string{"eof", "unexpected", "custom", "partial1", "partialhalf", "partialminus1", "shortthen", "typedthen", "errlist"}
	var tasks []e1.Task
	for wi := range wf.All {
		w := &wf.All[wi]
		for _, W := range []int{1, 2, 3} {
			for _, pol := range []int{0, 2, 3} {
				// bound 0: every Read index x kind x stickiness
				var specs []fast.SrcSpec
				for idx := 0; idx < w.S; idx++ {
					for _, k := range errKinds {
						for _, st := range []bool{true, false} {
							specs = append(specs, fast.SrcSpec{Kind: "fault", Index: idx, Index2: -1, Err: k, Sticky: st})
						}
					}
				}
				chunks := 2
				if w.Name == "Factory" {
					chunks = 4
				}
				for c := 0; c < chunks; c++ {
					lo, hi := c*len(specs)/chunks, (c+1)*len(specs)/chunks
					tasks = append(tasks, mk(w, W, 0, pol, specs[lo:hi], fmt.Sprintf("part%d", c)))
				}
				// deviation bound 1 (thorough: 2 for Period) at selected fault indices
				if (pol == 0 || pol == 3) && (!quick || (W == 2 && w.Name != "Factory")) {
					bound := 1
					if !quick && w.Name == "Period" {
						bound = 2
					}
					for _, idx := range []int{0, 1, w.S / 2, w.S - 2, w.S - 1} {
						var sp []fast.SrcSpec
						for _, ks := range []struct {
							k  string
							st bool
						}{{"eof", true}, {"custom", false}, {"partialhalf", false}} {
							sp = append(sp, fast.SrcSpec{Kind: "fault", Index: idx, Index2: -1, Err: ks.k, Sticky: ks.st})
						}
						t := mk(w, W, bound, pol, sp, fmt.Sprintf("idx%d", idx))
						if bound == 2 {
							for sh := 0; sh < 8; sh++ {
								t2 := t
								t2.Shard, t2.NShards = sh, 8
								tasks = append(tasks, t2)
							}
						} else {
							tasks = append(tasks, t)
						}
					}
				}
			}
		}
	}
	// faults placed by BYTE OFFSET (the parallel variants may read a sample in several pieces: a fault index counted in
	// Reads would then never reach the tail of a sample): the last byte, the last 1000 and 2121 bytes, the middle and
	// both sides of the first sample boundary
	for wi := range wf.All {
		w := &wf.All[wi]
		total := w.S * w.N
		var sp []fast.SrcSpec
		for _, off := range []int{total - 1, total - 1000, total - 2121, total - w.N/2, total - w.N + 1, total / 2, w.N + 1, w.N - 1, 1} {
			if off <= 0 {
				continue
			}
			for _, k := range []string{"eof", "custom", "partial"} {
				sp = append(sp, fast.SrcSpec{Kind: "faultat", Index2: -1, Err: k, Offset: off})
			}
		}
		for _, W := range []int{1, 2} {
			t := mk(w, W, 0, 0, sp, "byte-offsets")
			tasks = append(tasks, t)
		}
	}
	// consecutive failing calls in one process: W+2 calls, each on its own failing source; a resource a failing
	// call leaves behind (a limiter slot, a goroutine, a buffer) shows in the later calls
	for wi := range wf.All {
		w := &wf.All[wi]
		if quick && w.Name == "Factory" {
			continue
		}
		for _, W := range []int{1, 2} {
			var sp []fast.SrcSpec
			for _, idx := range []int{0, w.S / 2, w.S - 1} {
				for _, ks := range []struct {
					k  string
					st bool
				}{{"eof", true}, {"custom", false}, {"partialhalf", false}, {"shortthen", false}} {
					sp = append(sp, fast.SrcSpec{Kind: "fault", Index: idx, Index2: -1, Err: ks.k, Sticky: ks.st})
				}
			}
			p, _ := json.Marshal(fast.Params{Workflow: w.Name, Scenario: "all-pass", Srcs: sp, Mode: "c09", Repeat: W + 1})
			tasks = append(tasks, e1.Task{Check: "C09", Name: fmt.Sprintf("c09/%s-x%d/W%d/b0/p0", w.Name, W+2, W), Params: p, Bound: 0, Policy: 0, W: W, NShards: 1, CostAll: true})
		}
	}
	ctx.Printf("C09: %d exploration tasks\n", len(tasks))
	m := e1.RunTasks(ctx, info.Bin, tasks, 0, false)
	cov := fast.Report(ctx, m, info, nil)
	for _, r := range m.Results {
		for k := range r.Signatures {
			sigs.Add("fast/" + k)
		}
	}
	for _, s := range cov["samples"].([]interface{}) {
		addSample(s)
	}
	cov["samples"] = samples
	cov["evaluations"] = int(evals) + m.Execs
	cov["distinct_nontrivial"] = sigs.Len()
	cov["sequential_fault_runs"] = int(evals)
	cov["parallel_schedules"] = m.Execs
	cov["rule"] = "sequential workflows: the source fails at every byte offset of PeriodDetect and SingleDetect(16/40/1280/4096) and at 4 offsets per sample of the 125000-byte workflows x {clean end, unexpected EOF, custom error, error together with a partial read} x {sticky, transient} x base read sizes; " +
		"parallel workflows: fault at every Read index x 9 kinds (one of them an error whose dynamic type is a slice) x {sticky, transient} x W in {1,2,3} at deviation bound 0 under three default policies, and bound 1 (thorough: 2 for Period) at fault indices {0,1,s/2,s-2,s-1}; " +
		"distinct = distinct (workflow, kind, sample, position class) for the sequential part plus distinct outcome signatures of the schedules"
	cov["exhaustive"] = cov["exhaustive"].(bool) && !capped
	return ctx.Finish("fault_enumeration", cov, []string{
		"a hang is decided logically: in the controlled executions 'never returns' is a deadlock (no enabled thread); the sequential functions contain no blocking operation besides Read",
		"faults enter through the io.Reader seam only",
	})
}

func posClass(off, n int) string {
	switch {
	case off == 0:
		return "boundary"
	case off == n-1:
		return "last"
	case off < n/2:
		return "first-half"
	}
	return "second-half"
}

func mk(w *wf.WF, W, bound, pol int, specs []fast.SrcSpec, tag string) e1.Task {
	p, _ := json.Marshal(fast.Params{Workflow: w.Name, Scenario: "all-pass", Srcs: specs, Mode: "c09"})
	return e1.Task{Check: "C09", Name: fmt.Sprintf("c09/%s/W%d/%s/b%d/p%d", w.Name, W, tag, bound, pol), Params: p, Bound: bound, Policy: pol, W: W, NShards: 1, CostAll: true}
}

func firstLine(s string) string {
	for i, c := range s {
		if c == '\n' {
			return s[:i]
		}
	}
	return s
}
