// Package c05: the discrete-Fourier-transform test returns the standard-defined P and Q values (E2).
package c05

import (
	"fmt"
	"math"
	"math/cmplx"
	"runtime"
	"sort"
	"sync/atomic"

	r "github.com/Trisia/randomness"

	"verif/common"
	"verif/enum"
	"verif/refmodel"
)

type checker struct {
	cmp       *enum.Cmp
	ambiguous int64
	evals     int64
	counts    *common.Counter
}

// one compares the implementation with the formula's value for some admissible N1.
func (c *checker) one(bits []bool, desc func() interface{}) {
	c.oneVia("DiscreteFourierTransformTest", func() (float64, float64) { return r.DiscreteFourierTransformTest(bits) }, bits, desc)
}

// oneBytes: the byte-oriented entry point and the registry runner on the same sequence.
func (c *checker) oneBytes(data []byte, desc func() interface{}) {
	bits := refmodel.Bits(data)
	c.oneVia("DiscreteFourierTransformTestBytes", func() (float64, float64) { return r.DiscreteFourierTransformTestBytes(data) }, bits, desc)
	c.oneVia("DiscreteFourierTransform", func() (float64, float64) {
		res := r.DiscreteFourierTransform(data)
		return res.P, res.Q
	}, bits, desc)
}

func (c *checker) oneVia(fname string, call func() (float64, float64), bits []bool, desc func() interface{}) {
	n := len(bits)
	atomic.AddInt64(&c.evals, 1)
	var p, q float64
	if pv := common.Catch(func() { p, q = call() }); pv != nil {
		c.cmp.Panic(fname, pv, desc())
		return
	}
	lo, hi := refmodel.DFTCounts(bits)
	if lo != hi {
		atomic.AddInt64(&c.ambiguous, 1)
	}
	if n <= 4096 {
		c.counts.Add(fmt.Sprintf("n=%d N1=%d", n, lo))
	}
	for n1 := lo; n1 <= hi; n1++ {
		wp, wq := refmodel.DFTFromCount(n, n1)
		if c.cmp.Within(p, q, wp, wq, 0) {
			c.cmp.PQ(fname, uint64(n)<<32|uint64(n1), p, q, wp, wq, desc)
			return
		}
	}
	wp, wq := refmodel.DFTFromCount(n, lo)
	c.cmp.PQ(fname, uint64(n)<<32|uint64(lo), p, q, wp, wq, func() interface{} {
		return map[string]interface{}{"input": desc(), "admissible_N1": []int{lo, hi}}
	})
}

func Run(ctx *common.Ctx) int {
	cmp := enum.NewCmp(ctx, 1e-8)
	quick := ctx.Quick()
	exhaustive := true
	c := &checker{cmp: cmp, counts: common.NewCounter()}
	// oracle self-check: the recursive FFT of the reference against the naive DFT
	worst := 0.0
	for _, N := range []int{2, 4, 8, 64, 128, 512} {
		x := make([]complex128, N)
		f := enum.Filler(2*N, uint64(N))
		for i := range x {
			x[i] = complex(b2f(f[2*i]), b2f(f[2*i+1])*0.5)
		}
		a, b := refmodel.NaiveDFT(x), refmodel.RecFFT(x)
		for i := range a {
			if d := cmplx.Abs(a[i] - b[i]); d > worst {
				worst = d
			}
		}
	}
	if worst > 1e-9 {
		ctx.Note("ORACLE SELF-CHECK FAILED: recursive FFT deviates from the naive DFT by %g", worst)
	}
	// S1: every bit string n = 2..16 (thorough ..20)
	maxN := 16
	if !quick {
		maxN = 20
	}
	for n := 2; n <= maxN; n++ {
		if ctx.Expired() {
			exhaustive = false
			break
		}
		enum.AllStrings(n, func(bits []bool, v uint64) {
			c.one(bits, func() interface{} { return map[string]interface{}{"n": n, "bits": common.BitString(bits)} })
		})
	}
	cmp.Count(fmt.Sprintf("every bit string n=2..%d", maxN), c.evals)
	s1a := c.evals
	// S1b: every byte string of 1 and 2 bytes (thorough: and 3 bytes at stride 257) through the byte entry point and the registry runner
	for nb := 1; nb <= 2; nb++ {
		tot := 1 << uint(8*nb)
		common.ParFor(tot, func(v int) {
			data := make([]byte, nb)
			for i := range data {
				data[i] = byte(v >> uint(8*(nb-1-i)))
			}
			c.oneBytes(data, func() interface{} {
				return map[string]interface{}{"bytes_hex": fmt.Sprintf("%x", data), "entry": "bytes / registry runner"}
			})
		})
	}
	byteLens := []int{3, 4, 5, 7, 8, 9, 15, 16, 17, 31, 32, 33, 63, 64, 65, 127, 128, 129, 1024, 2500}
	common.ParFor(len(byteLens), func(i int) {
		for sd := 0; sd < 4; sd++ {
			data := refmodel.Pack(enum.Filler(8*byteLens[i], uint64(ctx.Seed)+uint64(sd)))
			if sd == 3 {
				for k := range data {
					data[k] = 0xFF
				}
			}
			c.oneBytes(data, func() interface{} {
				return map[string]interface{}{"bytes": byteLens[i], "filler_seed": ctx.Seed + int64(sd), "entry": "bytes / registry runner"}
			})
		}
	})
	cmp.Count("every 1- and 2-byte string, and fillers of 3..2500 bytes, through DiscreteFourierTransformTestBytes and the registry runner", c.evals-s1a)
	s1 := c.evals
	cmp.Sample(map[string]interface{}{"family": "S1", "lengths": fmt.Sprintf("2..%d", maxN), "oracle": "naive O(N^2) DFT of the zero-extended +-1 sequence"})
	// S2: lengths around powers of two x structured contents with <= 1 bit flip
	lens := []int{100, 127, 128, 129, 255, 256, 257, 1000, 1023, 1024, 1025, 4095, 4096, 4097, 20000, 65537}
	if !quick {
		lens = append(lens, 1000000, 1048577)
	}
	for _, n := range lens {
		if ctx.Expired() {
			exhaustive = false
			break
		}
		var inputs []struct {
			bits []bool
			name string
		}
		add := func(b []bool, name string) {
			inputs = append(inputs, struct {
				bits []bool
				name string
			}{b, name})
		}
		add(make([]bool, n), "constant 0")
		add(enum.Repeat([]bool{true}, n), "constant 1")
		maxBase := 8
		if n > 5000 {
			maxBase = 4
		}
		if n > 100000 {
			maxBase = 2
		}
		for _, p := range enum.BasePatterns(maxBase) {
			add(enum.Repeat(p, n), "pattern "+common.BitString(p))
		}
		maxPeriod := 32
		if n > 100000 {
			maxPeriod = 4
		}
		for per := 2; per <= maxPeriod; per++ {
			sq := make([]bool, per)
			for i := range sq {
				sq[i] = i < per/2
			}
			add(enum.Repeat(sq, n), fmt.Sprintf("square tone of period %d", per))
		}
		for s := 0; s < 3; s++ {
			add(enum.Filler(n, uint64(ctx.Seed)+uint64(s)), fmt.Sprintf("filler seed %d", ctx.Seed+int64(s)))
		}
		common.ParFor(len(inputs), func(i int) {
			in := inputs[i]
			c.one(in.bits, func() interface{} { return map[string]interface{}{"n": n, "content": in.name, "flips": []int{}} })
			if n > 100000 {
				return
			}
			for _, pos := range []int{0, 1, n / 2, n - 1} {
				b := append([]bool{}, in.bits...)
				b[pos] = !b[pos]
				c.one(b, func() interface{} { return map[string]interface{}{"n": n, "content": in.name, "flips": []int{pos}} })
			}
		})
	}
	// S3: the threshold itself. Bin N/4 of the transform is (A0-A2) - i(A1-A3) with integer sums over the index
	// classes mod 4: its squared magnitude is an integer K, compared with 2.995732274 n exactly. For the lengths
	// n in (2^14, 2^18] whose threshold lies closest above / below an integer that is a sum of two squares of
	// the right parities, a filler is adjusted so that the bin sits on that integer: the nearest a magnitude can get
	// to the threshold from either side (relative distance 1e-12..1e-9). The count must include / exclude it.
	{
		const scale = 1000000000
		type cand struct {
			n, K, a, b int
			below      bool
			gap        float64 // relative distance of K from the threshold
		}
		var cs []cand
		for n := 1<<14 + 8; n <= 1<<18; n++ {
			t2 := int64(2995732274) * int64(n) // threshold^2 * 1e9, exact
			k0 := int(t2 / scale)
			frac := float64(t2%scale) / scale
			for side := 0; side < 2; side++ {
				K, gap := k0, frac
				if side == 1 {
					K, gap = k0+1, 1-frac
				}
				rel := gap / (float64(t2) / scale)
				if rel < 1e-12 || rel > 1e-9 {
					continue
				}
				// parities: a = A0-A2 has the parity of c0+c2, b of c1+c3 (class sizes below n)
				pa := ((n+3)/4 + (n+1)/4) % 2
				pb := ((n+2)/4 + n/4) % 2
				for a := 0; a*a <= K; a++ {
					b2 := K - a*a
					b := int(math.Sqrt(float64(b2)) + 0.5)
					if b*b == b2 && a%2 == pa && b%2 == pb && a > 3 && b > 3 {
						cs = append(cs, cand{n, K, a, b, side == 0, rel})
						break
					}
				}
			}
		}
		sort.Slice(cs, func(i, j int) bool { return cs[i].gap < cs[j].gap })
		maxC := 10
		if !quick {
			maxC = 40
		}
		used, skipped := 0, 0
		var s3 int64
		for _, cd := range cs {
			if used >= maxC || ctx.Expired() {
				break
			}
			bits := enum.Filler(cd.n, uint64(ctx.Seed)+uint64(cd.n))
			// adjust the class sums: flipping a bit of class r changes A_r by +-2
			sums := [4]int{}
			for j, bt := range bits {
				if bt {
					sums[j%4]++
				} else {
					sums[j%4]--
				}
			}
			fix := func(cls, want, minus int) bool {
				cur := sums[cls] - sums[minus]
				for j := cls; j < cd.n && cur != want; j += 4 {
					if cur < want && !bits[j] {
						bits[j] = true
						cur += 2
					} else if cur > want && bits[j] {
						bits[j] = false
						cur -= 2
					}
				}
				return cur == want
			}
			if !fix(0, cd.a, 2) || !fix(1, cd.b, 3) {
				skipped++
				continue
			}
			n1, ok := refmodel.DFTCountsQuarter(bits, cd.below)
			if !ok {
				skipped++
				continue
			}
			used++
			s3++
			atomic.AddInt64(&c.evals, 1)
			var p, q float64
			desc := func() interface{} {
				return map[string]interface{}{"n": cd.n, "filler_seed": ctx.Seed + int64(cd.n), "bin_N/4_squared_magnitude": cd.K, "threshold_squared": 2.995732274 * float64(cd.n),
					"relative_distance": cd.gap, "counts_as_below_threshold": cd.below, "class_sums": []int{cd.a, cd.b}}
			}
			if pv := common.Catch(func() { p, q = r.DiscreteFourierTransformTest(bits) }); pv != nil {
				cmp.Panic("DiscreteFourierTransformTest", pv, desc())
				continue
			}
			wp, wq := refmodel.DFTFromCount(cd.n, n1)
			cmp.PQ("DiscreteFourierTransformTest(threshold)", uint64(cd.n)<<20, p, q, wp, wq, desc)
		}
		cmp.Count(fmt.Sprintf("S3: bin N/4 on the integer next to the threshold (relative distance 1e-12..1e-9), n in (2^14, 2^18]: %d lengths used, %d skipped, %d candidates", used, skipped, len(cs)), s3)
		cmp.Sample(map[string]interface{}{"family": "S3", "rule": "n in (2^14, 2^18]: 2.995732274 n within a relative 1e-9 of an integer K = a^2 + b^2 (a, b of the parities the class sizes force); filler adjusted to A0-A2 = a, A1-A3 = b; the bin is compared with the threshold in exact integer arithmetic", "candidates": len(cs)})
	}
	// the same function under other GOMAXPROCS settings (work split over workers must not depend on their number)
	s2 := c.evals
	prev := runtime.GOMAXPROCS(0)
	for _, gmp := range []int{1, 2, 3, 5, 6, 7, 12} {
		runtime.GOMAXPROCS(gmp)
		for _, n := range []int{4097, 32769, 65537, 100000, 131072} {
			bits := enum.Filler(n, uint64(ctx.Seed)+uint64(n))
			c.one(bits, func() interface{} {
				return map[string]interface{}{"n": n, "filler_seed": ctx.Seed + int64(n), "GOMAXPROCS": gmp}
			})
		}
	}
	runtime.GOMAXPROCS(prev)
	cmp.Count("GOMAXPROCS in {1,2,3,5,6,7,12} x fillers of 4097..131072 bits", c.evals-s2)
	c.evals = s2 + (c.evals - s2)
	cmp.Count("S2: lengths around powers of two x {constant, periodic patterns, square tones of period 2..32, fillers} with <=1 bit flip", s2-s1)
	cmp.Sample(map[string]interface{}{"family": "S2", "lengths": lens, "example": "n=1025 (padded to 2048), square tone of period 6 with bit 512 flipped"})
	_ = math.Pi
	cov := cmp.Coverage("S1: every bit string of each length against the naive DFT; S2: every listed content at every listed length (just below / at / just above powers of two); the implementation's (P,Q) must equal the formula's value for some N1 in the interval obtained by moving the threshold by a relative 1e-9 either way; "+
		"distinct = distinct (n, N1) pairs", exhaustive,
		common.Coverage{"inputs_with_more_than_one_admissible_N1": c.ambiguous, "distinct_(n,N1)_for_n<=4096": c.counts.Len(), "oracle_selfcheck_max_abs_error": worst})
	return ctx.Finish("exploration", cov, []string{"oracle: naive DFT for N<=64, recursive radix-2 FFT above (validated against the naive one at startup)", "a spectral magnitude within 1e-9 relative of the threshold may count either way, as the property allows"})
}

func b2f(b bool) float64 {
	if b {
		return 1
	}
	return -1
}
