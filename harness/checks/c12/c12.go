// Package c12: pass-count threshold and sample-uniformity statistic follow GM/T 0005 section 6 (E2, whole domain).
package c12

import (
	"fmt"
	"math"
	"sync/atomic"

	"github.com/Trisia/randomness/detect"

	"verif/checks/c18"
	"verif/common"
	"verif/model"
	"verif/wf"
)

func sum10(c []int) int {
	t := 0
	for _, v := range c {
		t += v
	}
	return t
}

func Run(ctx *common.Ctx) int {
	quick := ctx.Quick()
	var evals int64
	distinct := common.NewCounter()
	var samples []interface{}
	// ---------- Threshold(s) for every s in 1..10^6 ----------
	maxS := 1000000
	chunks := 1000
	common.ParFor(chunks, func(c int) {
		for s := c*maxS/chunks + 1; s <= (c+1)*maxS/chunks; s++ {
			got := detect.Threshold(s)
			want := model.Threshold(s)
			if got != want {
				ctx.Report("Threshold", fmt.Sprintf("Threshold(%d) = %d, the smallest integer not below s(1-a-3 sqrt(a(1-a)/s)) is %d", s, got, want), map[string]interface{}{"s": s, "got": got, "want": want})
			}
		}
		atomic.AddInt64(&evals, int64(maxS/chunks))
	})
	samples = append(samples, map[string]interface{}{"function": "Threshold", "domain": "every s in 1..1000000", "examples": map[string]int{"50": model.Threshold(50), "20": model.Threshold(20), "1000": model.Threshold(1000), "110000": model.Threshold(110000)}})
	// ---------- ThresholdQ ----------
	check := func(key string, qs []float64, desc func() interface{}) float64 {
		var got float64
		if pv := common.Catch(func() { got = detect.ThresholdQ(qs) }); pv != nil {
			ctx.Report("ThresholdQ/panic", fmt.Sprintf("ThresholdQ panicked: %v", pv), desc())
			return math.NaN()
		}
		want := model.Uniformity(qs)
		atomic.AddInt64(&evals, 1)
		if math.IsNaN(got) || math.Abs(got-want) > 1e-12 {
			ctx.Report(key, fmt.Sprintf("ThresholdQ = %.17g, Q(9/2, V/2) of the ten bin counts is %.17g (|d|=%.3g)", got, want, math.Abs(got-want)), desc())
		}
		return got
	}
	// alphabet: 0, 1, mid-bins, and around every edge
	var alpha []float64
	alpha = append(alpha, 0, 1)
	for b := 0; b < 10; b++ {
		alpha = append(alpha, (float64(b)+0.5)/10)
	}
	for _, e := range []float64{0.1, 0.2, 0.3, 0.4, 0.5, 0.6, 0.7, 0.8, 0.9} {
		alpha = append(alpha, math.Nextafter(e, 0), e, math.Nextafter(e, 1))
	}
	// every ordered list of length 1..3: every permutation is enumerated by construction; the value must
	// be bit-identical to that of the sorted list
	n := len(alpha)
	common.ParFor(n*n, func(ij int) {
		i, j := ij/n, ij%n
		if j == 0 {
			check("ThresholdQ/len1", []float64{alpha[i]}, func() interface{} { return map[string]interface{}{"q": []float64{alpha[i]}} })
		}
		v2 := check("ThresholdQ/len2", []float64{alpha[i], alpha[j]}, func() interface{} { return map[string]interface{}{"q": []float64{alpha[i], alpha[j]}} })
		v2r := detect.ThresholdQ([]float64{alpha[j], alpha[i]})
		if math.Float64bits(v2) != math.Float64bits(v2r) {
			ctx.Report("ThresholdQ/order", fmt.Sprintf("ThresholdQ depends on the order of the list: %v vs %v", v2, v2r), map[string]interface{}{"q": []float64{alpha[i], alpha[j]}})
		}
		for k := 0; k < n; k++ {
			qs := []float64{alpha[i], alpha[j], alpha[k]}
			v := check("ThresholdQ/len3", qs, func() interface{} { return map[string]interface{}{"q": qs} })
			if i <= j && j <= k {
				distinct.Add(fmt.Sprint(model.Bin(alpha[i]), model.Bin(alpha[j]), model.Bin(alpha[k])))
			}
			if vr := detect.ThresholdQ([]float64{alpha[k], alpha[i], alpha[j]}); math.Float64bits(v) != math.Float64bits(vr) {
				ctx.Report("ThresholdQ/order", fmt.Sprintf("ThresholdQ depends on the order of the list: %v vs %v", v, vr), map[string]interface{}{"q": qs})
			}
		}
	})
	samples = append(samples, map[string]interface{}{"function": "ThresholdQ", "family": "every ordered list of length 1..3 over a 39-value alphabet", "alphabet": alpha})
	// every partition of 20 and 50 into <= 10 bin counts, realised with mid-bin and edge values, in three orders
	for _, s := range []int{20, 50} {
		var parts [][]int
		wf.Partitions(s, 10, func(p []int) { parts = append(parts, append([]int{}, p...)) })
		common.ParFor(len(parts), func(pi int) {
			if quick && s == 50 && pi%3 != 0 {
				return
			}
			p := parts[pi]
			for how := 0; how < 3; how++ {
				counts := make([]int, 10)
				for i, v := range p {
					switch how {
					case 0:
						counts[i] = v
					case 1:
						counts[9-i] = v
					default:
						counts[(i*3+1)%10] = v
					}
				}
				var qs []float64
				for b, c := range counts {
					for k := 0; k < c; k++ {
						if k%2 == 0 {
							qs = append(qs, float64(b)/10) // lower edge belongs to the bin
						} else {
							qs = append(qs, (float64(b)+0.5)/10)
						}
					}
				}
				// edge values as literals (0.1*3 != 0.3): use the exact decimal literal table
				for i := range qs {
					qs[i] = snap(qs[i])
				}
				v := check(fmt.Sprintf("ThresholdQ/partition-s%d", s), qs, func() interface{} { return map[string]interface{}{"bin_counts": counts} })
				distinct.Add(fmt.Sprint(s, p))
				// descending, rotated, and one adjacent transposition at every position of the first instance
				rev := make([]float64, len(qs))
				for i := range qs {
					rev[len(qs)-1-i] = qs[i]
				}
				rot := append(append([]float64{}, qs[len(qs)/3:]...), qs[:len(qs)/3]...)
				for _, alt := range [][]float64{rev, rot} {
					if va := detect.ThresholdQ(alt); math.Float64bits(va) != math.Float64bits(v) {
						ctx.Report("ThresholdQ/order", fmt.Sprintf("ThresholdQ depends on the order of the list (bin counts %v): %v vs %v", counts, v, va), map[string]interface{}{"bin_counts": counts})
					}
					atomic.AddInt64(&evals, 1)
				}
				if how == 0 && pi%50 == 0 {
					for i := 0; i+1 < len(qs); i++ {
						sw := append([]float64{}, qs...)
						sw[i], sw[i+1] = sw[i+1], sw[i]
						if va := detect.ThresholdQ(sw); math.Float64bits(va) != math.Float64bits(v) {
							ctx.Report("ThresholdQ/order", fmt.Sprintf("ThresholdQ changes under the transposition of positions %d,%d (bin counts %v)", i, i+1, counts), map[string]interface{}{"bin_counts": counts, "swap": i})
						}
						atomic.AddInt64(&evals, 1)
					}
				}
			}
		})
	}
	samples = append(samples, map[string]interface{}{"function": "ThresholdQ", "family": "every partition of 20 (530) and 50 (62740; quick: every third) into <=10 bin counts x 3 bin arrangements, values on lower edges and mid-bin, orders ascending/descending/rotated/adjacent transpositions"})
	// length 1000: two one-parameter families for every feasible t
	for t := 0; t <= 100; t++ {
		for fam := 0; fam < 2; fam++ {
			counts := make([]int, 10)
			for b := range counts {
				counts[b] = 100
			}
			if fam == 0 {
				counts[0], counts[1] = 100+t, 100-t
			} else {
				counts[0] = 100 + 9*t
				for b := 1; b < 10; b++ {
					counts[b] = 100 - t
				}
			}
			var qs []float64
			for b, c := range counts {
				for k := 0; k < c; k++ {
					qs = append(qs, snap(float64(b)/10))
				}
			}
			check("ThresholdQ/len1000", qs, func() interface{} { return map[string]interface{}{"bin_counts": counts} })
			distinct.Add(fmt.Sprint(1000, fam, t))
		}
	}
	// long lists (counters, squares and sums far beyond what 20/50/1000 samples need): lengths 5000..10^6 with one
	// over-full interval, with everything in one or two intervals, and perfectly uniform
	for _, s := range []int{5000, 6000, 46341, 65536, 100000, 1000000} {
		for fam := 0; fam < 5; fam++ {
			counts := make([]int, 10)
			switch fam {
			case 0: // uniform
				for b := range counts {
					counts[b] = s / 10
				}
			case 1: // one interval holds 15%
				for b := range counts {
					counts[b] = s * 85 / 100 / 9
				}
				counts[3] += s - sum10(counts)
			case 2: // everything in the last interval
				counts[9] = s
			case 3: // two intervals
				counts[0], counts[5] = s/2, s-s/2
			case 4: // mild skew with a moderate P-value
				for b := range counts {
					counts[b] = s / 10
				}
				d := int(math.Sqrt(float64(s))) / 2
				counts[2] += d
				counts[7] -= d
			}
			counts[0] += s - sum10(counts)
			qs := make([]float64, 0, s)
			for b, c := range counts {
				for k := 0; k < c; k++ {
					qs = append(qs, snap(float64(b)/10)+0.05)
				}
			}
			check("ThresholdQ/long", qs, func() interface{} { return map[string]interface{}{"length": s, "bin_counts": counts} })
			distinct.Add(fmt.Sprint("long", s, fam))
		}
	}
	// ---------- the uniformity statistic next to concurrent users of the shared incomplete-gamma code ----------
	// (the parallel workflows evaluate ThresholdQ while workers are still inside chi-square tests of other shapes)
	concExecs, concStates := 0, 0
	if m, info, err := c18.PairsOf(ctx, []string{"ThresholdQ", "Igamc(1,.)", "Igamc(7.5,.)", "runner02", "runner05"}); err != nil {
		ctx.Note("concurrent part skipped: the library cannot be instrumented (%v)", err)
	} else {
		for _, res := range m.Results {
			if res.Found != nil {
				ctx.Report("concurrent/"+res.Task.Name, res.Found.Violation, map[string]interface{}{"task": res.Task.Name, "choices": res.Found.Choices})
			}
		}
		for _, e := range m.ToolErrors {
			ctx.Note("tool error (not a violation): %s", e)
		}
		concExecs, concStates = m.Execs, len(m.States)
		samples = append(samples, map[string]interface{}{"family": "concurrent", "cases": "all ordered pairs (and triples) of {ThresholdQ, Igamc(1,.), Igamc(7.5,.), poker runner, runs-distribution runner} under the controlled scheduler, <= 2 preemptions at synchronisation operations and package-level state", "schedules": m.Execs, "synchronisation_constructs_found": info.Counts})
	}
	cov := common.Coverage{
		"evaluations":          int(evals) + concExecs,
		"concurrent_schedules": concExecs,
		"concurrent_states":    concStates,
		"distinct_nontrivial":  distinct.Len() + 1,
		"rule": "Threshold: the whole domain s=1..10^6 against an exact integer predicate; ThresholdQ: every ordered list of length 1..3 over a 39-value alphabet (0, 1, mid-bins, the floats below/at/above every edge 0.1..0.9), every partition of 20 and 50 into <=10 bin counts in three arrangements and several orders, two one-parameter families of length 1000; " +
			"oracle: exact rational chi-square and 192-bit Q(9/2, .), tolerance 1e-12; order independence bit-for-bit; distinct = distinct bin-count multisets",
		"samples":    samples,
		"exhaustive": true,
	}
	return ctx.Finish("exploration", cov, []string{"the empty list is outside the definition (0/0) and not enumerated", "lists longer than 3 are covered through their bin counts (the statistic is a function of the counts) rather than all contents"})
}

// snap maps k/10 computed in floating point to the decimal literal the standard's intervals use.
func snap(v float64) float64 {
	lits := [...]float64{0, 0.1, 0.2, 0.3, 0.4, 0.5, 0.6, 0.7, 0.8, 0.9, 1.0}
	for _, l := range lits {
		if math.Abs(v-l) < 1e-12 {
			return l
		}
	}
	return v
}
