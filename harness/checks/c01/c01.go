// Package c01: frequency / pattern-count tests return the standard-defined P and Q values (E2).
package c01

import (
	"fmt"
	"sync"

	r "github.com/Trisia/randomness"

	"verif/calls"
	"verif/common"
	"verif/e2"
	"verif/enum"
	"verif/refmodel"
)

// oddLarge: a byte count of 64 KiB or more that is not a multiple of 8 (of any chunk or word size).
func oddLarge(L int) bool { return L >= 65536 && L < 1<<20 && L%8 != 0 }

func Run(ctx *common.Ctx) int {
	cmp := enum.NewCmp(ctx, 1e-8)
	d := e2.New(cmp, calls.ByGroup("C01"))
	quick := ctx.Quick()
	exhaustive := true
	// S1: every bit string of the small lengths x all 18 parameterisations
	lens := []int{8, 9, 10, 11, 12, 13, 14, 15, 16, 17, 18}
	if !quick {
		lens = append(lens, 19, 20, 21, 22, 23)
	}
	for _, n := range lens {
		if ctx.Expired() {
			exhaustive = false
			break
		}
		d.Strings(n)
	}
	cmp.Sample(map[string]interface{}{"family": "S1", "lengths": lens, "calls": d.Names(), "example": "n=17 bits=01101001100101101"})
	// byte entry points on every 1-, 2- (3-) byte string, against the reference on the MSB-first expansion
	maxB := 2
	if !quick {
		maxB = 3
	}
	for nb := 1; nb <= maxB; nb++ {
		total := 1 << uint(8*nb)
		common.ParFor(total/256, func(hi int) {
			data := make([]byte, nb)
			for lo := 0; lo < 256; lo++ {
				v := hi*256 + lo
				for k := 0; k < nb; k++ {
					data[k] = byte(v >> uint(8*(nb-1-k)))
				}
				bits := refmodel.Bits(data)
				desc := func() interface{} { return map[string]interface{}{"bytes": fmt.Sprintf("%x", data)} }
				check := func(name string, f func() (float64, float64), wp, wq float64) {
					var p, q float64
					if pv := common.Catch(func() { p, q = f() }); pv != nil {
						cmp.Panic(name, pv, desc())
						return
					}
					cmp.PQ(name, uint64(len(name)), p, q, wp, wq, desc)
				}
				wp, wq := refmodel.Monobit(bits)
				check("MonoBitFrequencyTestBytes", func() (float64, float64) { return r.MonoBitFrequencyTestBytes(data) }, wp, wq)
				for _, m := range []int{2, 4, 8} {
					m := m
					wp, wq = refmodel.Poker(bits, m)
					check(fmt.Sprintf("PokerTestBytes(m=%d)", m), func() (float64, float64) { return r.PokerTestBytes(data, m) }, wp, wq)
				}
				for _, m := range []int{2, 3, 8} {
					m := m
					wp, wq = refmodel.BlockFreq(bits, m)
					check(fmt.Sprintf("FrequencyWithinBlockTestBytes(m=%d)", m), func() (float64, float64) { return r.FrequencyWithinBlockTestBytes(data, m) }, wp, wq)
				}
				for _, m := range []int{2, 5} {
					m := m
					wp, wq = refmodel.ApEn(bits, m)
					check(fmt.Sprintf("ApproximateEntropyTestBytes(m=%d)", m), func() (float64, float64) { return r.ApproximateEntropyTestBytes(data, m) }, wp, wq)
				}
			}
		})
		cmp.Count(fmt.Sprintf("all %d-byte strings x byte entry points", nb), int64(total)*9)
	}
	// byte entry points on longer data: every 1-byte pattern repeated to each length with one byte replaced
	// at a critical position, and fillers of every length 1..300
	byteCalls := func(data []byte, desc func() interface{}) int {
		bits := refmodel.Bits(data)
		k := 0
		check := func(name string, f func() (float64, float64), wp, wq float64) {
			var p, q float64
			k++
			if pv := common.Catch(func() { p, q = f() }); pv != nil {
				cmp.Panic(name, pv, desc())
				return
			}
			cmp.PQ(name, uint64(len(name)), p, q, wp, wq, desc)
		}
		wp, wq := refmodel.Monobit(bits)
		check("MonoBitFrequencyTestBytes", func() (float64, float64) { return r.MonoBitFrequencyTestBytes(data) }, wp, wq)
		for _, m := range []int{2, 4, 8} {
			m := m
			wp, wq = refmodel.Poker(bits, m)
			check(fmt.Sprintf("PokerTestBytes(m=%d)", m), func() (float64, float64) { return r.PokerTestBytes(data, m) }, wp, wq)
		}
		if len(data) <= 125 || oddLarge(len(data)) {
			wp, wq = refmodel.BlockFreq(bits, 8)
			check("FrequencyWithinBlockTestBytes(m=8)", func() (float64, float64) { return r.FrequencyWithinBlockTestBytes(data, 8) }, wp, wq)
		}
		if oddLarge(len(data)) {
			// the entry points that expand the bytes to bits first, on byte counts that no chunking divides
			wp, wq = refmodel.ApEn(bits, 5)
			check("ApproximateEntropyTestBytes(m=5)", func() (float64, float64) { return r.ApproximateEntropyTestBytes(data, 5) }, wp, wq)
			w1, w2, wq1, wq2 := refmodel.Overlapping(bits, 5)
			check("OverlappingTemplateMatchingTestBytes(m=5)[P1]", func() (float64, float64) {
				p1, _, q1, _ := r.OverlappingTemplateMatchingTestBytes(data, 5)
				return p1, q1
			}, w1, wq1)
			_, _ = w2, wq2
		}
		return k
	}
	var blens []int
	for l := 3; l <= 40; l++ {
		blens = append(blens, l)
	}
	blens = append(blens, 125, 1000, 2500)
	devVals := []byte{0x00, 0x01, 0x0F, 0x10, 0x55, 0x80, 0xF0, 0xFF}
	var bevals int64
	var bmu sync.Mutex
	common.ParFor(256, func(pv int) {
		local := 0
		for _, L := range blens {
			data := make([]byte, L)
			for i := range data {
				data[i] = byte(pv)
			}
			local += byteCalls(data, func() interface{} {
				return map[string]interface{}{"bytes": fmt.Sprintf("0x%02x repeated %d times", pv, L)}
			})
			for _, pos := range []int{0, 1, L / 2, L - 2, L - 1} {
				for _, dv := range devVals {
					if dv == byte(pv) {
						continue
					}
					old := data[pos]
					data[pos] = dv
					local += byteCalls(data, func() interface{} {
						return map[string]interface{}{"bytes": fmt.Sprintf("0x%02x repeated %d times, byte %d = 0x%02x", pv, L, pos, dv)}
					})
					data[pos] = old
				}
			}
		}
		bmu.Lock()
		bevals += int64(local)
		bmu.Unlock()
	})
	for L := 1; L <= 300; L++ {
		data := enum.FillerBytes(L, uint64(ctx.Seed)+uint64(L))
		bevals += int64(byteCalls(data, func() interface{} { return map[string]interface{}{"filler_bytes": L, "seed": ctx.Seed + int64(L)} }))
	}
	// large byte inputs: a pattern count above 65535 (m=4 from 0.5 MiB, m=8 from 16 MiB of near-uniform data)
	for _, L := range []int{125000, 1 << 20, 17 << 20, 65541, 65543, 125003, 131075} {
		if ctx.Expired() {
			exhaustive = false
			break
		}
		data := enum.FillerBytes(L, uint64(ctx.Seed)+uint64(L))
		if oddLarge(L) {
			for k := 1; k <= 9; k++ {
				data[L-k] |= 0x81 // a non-zero tail
			}
		}
		bevals += int64(byteCalls(data, func() interface{} { return map[string]interface{}{"filler_bytes": L, "seed": ctx.Seed + int64(L)} }))
		if L == 125000 {
			for i := range data {
				if i%3 != 0 {
					data[i] = 0x5A
				}
			}
			bevals += int64(byteCalls(data, func() interface{} { return map[string]interface{}{"filler_bytes": L, "two_thirds": "0x5A"} }))
		}
	}
	cmp.Count("byte entry points: 1-byte patterns x 41 lengths x one replaced byte, fillers of 1..300 bytes, 125000 bytes, 1 MiB, 17 MiB, and 65541 / 65543 / 125003 / 131075 bytes (also block frequency, approximate entropy, overlapping)", bevals)
	// S2: base patterns repeated to boundary-rich lengths with <= 1 (thorough <= 2) bit flips at critical positions
	type lenSpec struct {
		n       int
		maxBase int
	}
	specs := []lenSpec{{100, 8}, {101, 8}, {127, 8}, {128, 8}, {999, 6}, {1000, 6}, {1001, 6}, {1007, 5}, {9999, 4}, {10000, 4}, {10001, 4}, {20000, 3}}
	if !quick {
		specs = []lenSpec{{100, 8}, {101, 8}, {127, 8}, {128, 8}, {999, 8}, {1000, 8}, {1001, 8}, {1007, 8}, {9999, 6}, {10000, 6}, {10001, 6}, {20000, 5}, {999999, 2}, {1000000, 2}, {1000001, 2}}
	}
	s2evals := int64(0)
	for _, sp := range specs {
		if ctx.Expired() {
			exhaustive = false
			break
		}
		pats := enum.BasePatterns(sp.maxBase)
		pos := enum.CriticalPositions(sp.n, refmodel.AutoM(sp.n), 8)
		if len(pos) > 14 {
			pos = pos[:14]
		}
		counts := make([]int64, len(pats))
		common.ParFor(len(pats), func(pi int) {
			base := enum.Repeat(pats[pi], sp.n)
			counts[pi] += int64(d.One(base, func() interface{} {
				return map[string]interface{}{"n": sp.n, "pattern": common.BitString(pats[pi]), "flips": []int{}}
			}))
			if sp.n > 100000 && pi%2 == 1 {
				return
			}
			for ai, a := range pos {
				base[a] = !base[a]
				counts[pi] += int64(d.One(base, func() interface{} {
					return map[string]interface{}{"n": sp.n, "pattern": common.BitString(pats[pi]), "flips": []int{a}}
				}))
				if !quick && sp.n <= 1100 {
					for _, b := range pos[ai+1:] {
						base[b] = !base[b]
						counts[pi] += int64(d.One(base, func() interface{} {
							return map[string]interface{}{"n": sp.n, "pattern": common.BitString(pats[pi]), "flips": []int{a, b}}
						}))
						base[b] = !base[b]
					}
				}
				base[a] = !base[a]
			}
		})
		for _, c := range counts {
			s2evals += c
		}
	}
	cmp.Count("S2 periodic patterns with bit flips", s2evals)
	cmp.Sample(map[string]interface{}{"family": "S2", "example": "pattern 0110 repeated to n=1001 with bits 0 and 1000 flipped", "lengths": specs})
	// fillers (moderate P-values) at every word-boundary length and at the regime boundaries
	fl := e2.WordLengths(999, 1000, 1001, 9999, 10000, 10001, 20000)
	fev, fok := d.Fillers(ctx, fl, 2, uint64(ctx.Seed))
	cmp.Count("fillers and biased fillers at every n in 33..200, around powers of two and at the block-length boundaries", fev)
	exhaustive = exhaustive && fok
	// 10^6 bits: the sizes the standard is about (block frequency with m=2 has 5*10^5 blocks there)
	for k := 0; k < 3; k++ {
		if ctx.Expired() {
			exhaustive = false
			break
		}
		bits := enum.Filler(1000000, uint64(ctx.Seed)+900+uint64(k))
		if k == 1 {
			for j := 0; j < len(bits); j += 50 {
				bits[j] = true
			}
		}
		cmp.Count("10^6-bit fillers x all parameterisations", int64(d.One(bits, func() interface{} {
			return map[string]interface{}{"n": 1000000, "filler_seed": ctx.Seed + 900 + int64(k), "biased": k == 1}
		})))
	}
	// S3: automatic block length for every n <= 20000 on two fillers (+- 1 around 10^6; thorough 10^8)
	limit := 20000
	for _, seed := range []uint64{uint64(ctx.Seed), uint64(ctx.Seed) + 77} {
		f := enum.Filler(limit, seed)
		common.ParFor(limit-9, func(i int) {
			n := i + 10
			bits := f[:n]
			var p, q float64
			if pv := common.Catch(func() { p, q = r.FrequencyWithinBlockTest(bits) }); pv != nil {
				cmp.Panic("FrequencyWithinBlockTest(auto)", pv, map[string]interface{}{"n": n, "filler_seed": seed})
				return
			}
			wp, wq := refmodel.BlockFreq(bits, refmodel.AutoM(n))
			cmp.PQ("FrequencyWithinBlockTest(auto m)", uint64(n), p, q, wp, wq, func() interface{} { return map[string]interface{}{"n": n, "filler_seed": seed} })
		})
		cmp.Count("S3 automatic block length, every n in 10..20000", int64(limit-9))
	}
	big := []int{999999, 1000000, 1000001}
	if !quick {
		big = append(big, 99999999, 100000000)
	}
	for _, n := range big {
		if ctx.Expired() {
			exhaustive = false
			break
		}
		bits := enum.Filler(n, uint64(ctx.Seed)+5)
		p, q := r.FrequencyWithinBlockTest(bits)
		wp, wq := refmodel.BlockFreq(bits, refmodel.AutoM(n))
		cmp.PQ("FrequencyWithinBlockTest(auto m)", uint64(n), p, q, wp, wq, func() interface{} { return map[string]interface{}{"n": n, "filler_seed": ctx.Seed + 5} })
		cmp.Count("S3 automatic block length at regime boundaries", 1)
	}
	cmp.Sample(map[string]interface{}{"family": "S3", "example": "FrequencyWithinBlockTest(filler[:n]) for every n in 10..20000 and n in " + fmt.Sprint(big)})
	cov := cmp.Coverage("S1: every bit string of each listed length x the 18 bit-level parameterisations (monobit; block frequency auto and m in {2,3,5,8,10,n}; poker m in {2,4,8}; overlapping m in {2,3,5,7}; approximate entropy m in {2,5,7}) and every 1-,2-(3-)byte string x the byte entry points; "+
		"S2: every base pattern up to the listed length repeated to each boundary-rich n with <=1 (thorough <=2 for n<=1100) bit flips at critical positions; S3: automatic block length for every n in 10..20000 and around 10^6 (10^8); "+
		"distinct = distinct (call, reference P value) pairs with 0<P<1 (counted from below in a 2^27-bit set)", exhaustive,
		common.Coverage{"max_abs_difference_seen": cmp.MaxDiff})
	return ctx.Finish("exploration", cov, []string{"oracle: refmodel (closed-form Q for integer/half-integer shapes, math.Erfc, math.Exp); tolerance 1e-8 as the property states",
		"contents of 10^3..10^8-bit inputs are words of the stated grammar, not all contents"})
}
