// Package c11: single-shot detection applies the poker test with the length-appropriate m (E2).
package c11

import (
	"fmt"
	"math"
	"sync"
	"sync/atomic"

	"github.com/Trisia/randomness/detect"

	"verif/common"
	"verif/refmodel"
	"verif/seam"
)

func mStar(nbits int) int {
	switch {
	case nbits < 320:
		return 2
	case nbits < 10240:
		return 4
	}
	return 8
}

type st struct {
	ctx       *common.Ctx
	evals     int64
	skipped   int64
	distinct  *common.Counter
	trueSeen  int64
	falseSeen int64
}

// verdict check of one byte string of admissible length
func (s *st) one(data []byte, desc func() interface{}) {
	nb := len(data)
	src := &seam.Source{Data: append(append([]byte{}, data...), 0x5A, 0xC3)}
	var v bool
	var err error
	atomic.AddInt64(&s.evals, 1)
	if pv := common.Catch(func() { v, err = detect.SingleDetect(src, nb) }); pv != nil {
		s.ctx.Report("SingleDetect/panic", fmt.Sprintf("SingleDetect(%d bytes) panicked: %v", nb, pv), desc())
		return
	}
	if src.Pos() != nb {
		s.ctx.Report("SingleDetect/consumed", fmt.Sprintf("SingleDetect(%d) consumed %d bytes", nb, src.Pos()), desc())
	}
	m := mStar(8 * nb)
	p, _ := refmodel.Poker(refmodel.Bits(data), m)
	if math.Abs(p-0.01) < 1e-9 {
		atomic.AddInt64(&s.skipped, 1)
		return
	}
	want := p >= 0.01
	if want {
		atomic.AddInt64(&s.trueSeen, 1)
	} else {
		atomic.AddInt64(&s.falseSeen, 1)
	}
	if err != nil || v != want {
		// which m would explain the answer?
		expl := ""
		for _, om := range []int{2, 4, 8} {
			if om != m {
				if op, _ := refmodel.Poker(refmodel.Bits(data), om); (op >= 0.01) == v {
					expl += fmt.Sprintf(" (m=%d would give P=%.4g)", om, op)
				}
			}
		}
		s.ctx.Report(fmt.Sprintf("SingleDetect/verdict/m=%d", m), fmt.Sprintf("SingleDetect(%d bytes) returned (%v, %v); the poker test with m=%d has P=%.6g, so the verdict should be %v%s", nb, v, err, m, p, want, expl), desc())
	}
}

func Run(ctx *common.Ctx) int {
	quick := ctx.Quick()
	s := &st{ctx: ctx, distinct: common.NewCounter()}
	var samples []interface{}
	exhaustive := true
	// ---------- every requested length: error below 16 bytes, bytes consumed = requested ----------
	lengths := []int{}
	for l := 0; l <= 4096; l++ {
		lengths = append(lengths, l)
	}
	lengths = append(lengths, 12500, 125000)
	contents := []string{"zeros", "ones", "0x55", "counter", "filler"}
	mk := func(kind string, l int) []byte {
		b := make([]byte, l)
		for i := range b {
			switch kind {
			case "ones":
				b[i] = 0xFF
			case "0x55":
				b[i] = 0x55
			case "counter":
				b[i] = byte(i)
			case "filler":
				b[i] = byte((i*2654435761 + 12345) >> 7)
			}
		}
		return b
	}
	common.ParFor(len(lengths), func(li int) {
		l := lengths[li]
		for _, kind := range contents {
			data := mk(kind, l)
			if l >= 16 {
				s.one(data, func() interface{} { return map[string]interface{}{"bytes": l, "content": kind} })
				// a source with exactly enough bytes
				src := &seam.Source{Data: data}
				v0, err := detect.SingleDetect(src, l)
				if err != nil || src.Pos() != l {
					ctx.Report("SingleDetect/exact-source", fmt.Sprintf("SingleDetect(%d) on a source of exactly %d bytes: err=%v consumed=%d", l, l, err, src.Pos()), map[string]interface{}{"bytes": l, "content": kind})
				}
				// ... whose final Read reports io.EOF together with its bytes (allowed by io.Reader), in one read and in 7-byte reads
				for _, chunk := range []int{0, 7} {
					src := &seam.Source{Data: data, EOFWithData: true}
					if chunk > 0 {
						src.Policy = func(call, req, rem int) (seam.Answer, bool) { return seam.Answer{N: chunk}, true }
					}
					v1, err := detect.SingleDetect(src, l)
					atomic.AddInt64(&s.evals, 1)
					if v1 != v0 || (v1 && err != nil) || src.Pos() != l {
						ctx.Report("SingleDetect/eof-with-last-bytes", fmt.Sprintf("SingleDetect(%d) on a source that returns io.EOF together with the last requested bytes (reads of %d): (%v, %v) consumed=%d; the same bytes from a plain source give verdict %v", l, chunk, v1, err, src.Pos(), v0), map[string]interface{}{"bytes": l, "content": kind})
					}
				}
				continue
			}
			src := &seam.Source{Data: append(data, 1, 2, 3)}
			var v bool
			var err error
			pv := common.Catch(func() { v, err = detect.SingleDetect(src, l) })
			atomic.AddInt64(&s.evals, 1)
			s.distinct.Add(fmt.Sprint("short ", l))
			if pv != nil || v || err == nil {
				ctx.Report("SingleDetect/too-short", fmt.Sprintf("SingleDetect(%d bytes) must report an error (verdict false); got (%v, %v) panic=%v", l, v, err, pv), map[string]interface{}{"bytes": l, "content": kind})
			}
			if pv == nil && src.Pos() != l {
				ctx.Report("SingleDetect/consumed", fmt.Sprintf("SingleDetect(%d) consumed %d bytes", l, src.Pos()), map[string]interface{}{"bytes": l})
			}
		}
	})
	// far larger requests with stuck and heavily biased contents (a counter wide enough for random data need not be wide enough here)
	bigLens := []int{65535, 65536, 65537, 69000, 131072, 262144, 262145, 1 << 20}
	if !quick {
		bigLens = append(bigLens, 1<<21, 1<<22, 1<<24)
	}
	common.ParFor(len(bigLens), func(li int) {
		l := bigLens[li]
		for _, kind := range []string{"zeros", "ones", "0xA5", "one value 65536+256 times, rest uniform", "filler"} {
			var data []byte
			switch kind {
			case "0xA5":
				data = make([]byte, l)
				for i := range data {
					data[i] = 0xA5
				}
			case "one value 65536+256 times, rest uniform":
				if l < 131072 {
					continue
				}
				data = make([]byte, l)
				for i := range data {
					if i < 65536+256 {
						data[i] = 0x3C
					} else {
						data[i] = byte(i)
					}
				}
			default:
				data = mk(kind, l)
			}
			s.one(data, func() interface{} { return map[string]interface{}{"bytes": l, "content": kind} })
			s.distinct.Add(fmt.Sprint("big ", l, kind))
		}
	})
	samples = append(samples, map[string]interface{}{"family": "lengths", "lengths": "every 0..4096, 12500, 125000; 65535..2^20 (thorough 2^24) with stuck / biased / filler contents", "contents": contents})
	// ---------- m = 2 regime: every histogram (c0,c1,c2,c3) of the 2-bit patterns for L bytes ----------
	Ls := []int{16, 17, 39}
	if !quick {
		Ls = nil
		for L := 16; L <= 39; L++ {
			Ls = append(Ls, L)
		}
	}
	for _, L := range Ls {
		if ctx.Expired() {
			exhaustive = false
			break
		}
		N := 4 * L
		common.ParFor(N+1, func(c0 int) {
			for c1 := 0; c0+c1 <= N; c1++ {
				for c2 := 0; c0+c1+c2 <= N; c2++ {
					c3 := N - c0 - c1 - c2
					data := fromHist2([]int{c0, c1, c2, c3}, L)
					s.one(data, func() interface{} {
						return map[string]interface{}{"bytes": L, "two_bit_pattern_counts": []int{c0, c1, c2, c3}}
					})
				}
			}
			s.distinct.Add(fmt.Sprint("m2 ", L, " ", c0))
		})
	}
	samples = append(samples, map[string]interface{}{"family": "m=2 regime", "bytes": Ls, "cases": "every histogram of the four 2-bit patterns (the statistic depends on nothing else), realised as bytes"})
	// ---------- m = 4 and m = 8 regimes: one-parameter skew families through the 0.01 boundary ----------
	for _, L := range []int{40, 41, 100, 1279, 1280, 1281, 2000, 4096} {
		if ctx.Expired() {
			exhaustive = false
			break
		}
		m := mStar(8 * L)
		units := 8 * L / m // number of m-bit blocks
		classes := 1 << uint(m)
		for _, k := range []int{1, 3, 7, classes - 1} {
			if k >= classes {
				continue
			}
			// move t blocks from classes 1..k (round-robin) to class 0, for every feasible t
			base := make([]int, classes)
			for i := 0; i < units; i++ {
				base[i%classes]++
			}
			maxT := 0
			for c := 1; c <= k; c++ {
				maxT += base[c]
			}
			step := 1
			if quick && maxT > 600 {
				step = maxT / 600
			}
			common.ParFor(maxT/step+1, func(ti int) {
				t := ti * step
				h := append([]int{}, base...)
				moved := 0
				for moved < t {
					progress := false
					for c := 1; c <= k && moved < t; c++ {
						if h[c] > 0 {
							h[c]--
							h[0]++
							moved++
							progress = true
						}
					}
					if !progress {
						break
					}
				}
				for arr := 0; arr < 2; arr++ {
					data := fromHist(h, m, L, arr)
					s.one(data, func() interface{} {
						return map[string]interface{}{"bytes": L, "m_expected": m, "moved_blocks_to_class_0": t, "from_classes": k, "arrangement": arr}
					})
				}
				s.distinct.Add(fmt.Sprint("skew ", L, k, t))
			})
		}
	}
	// ---------- the decision boundary itself: for every length the histograms whose P-value is closest to 0.01 ----------
	// V = 2^m/N * SS - N takes one value per sum of squares SS of the pattern counts; for each length the two (four)
	// reachable SS next to the critical one are realised: P just above and just below 0.01 (a decision taken on a
	// rounded critical value, a truncated statistic or a float32 comparison differs exactly there)
	var critLens []int
	for L := 40; L <= 4096; L++ {
		critLens = append(critLens, L)
	}
	var nearest int64
	worstGap := 0.0
	var gmu sync.Mutex
	common.ParFor(len(critLens), func(li int) {
		L := critLens[li]
		m := mStar(8 * L)
		N := 8 * L / m
		k := 1 << uint(m)
		vc := critical(k - 1)
		target := (vc + float64(N)) * float64(N) / float64(k)
		base := int(math.Floor(target))
		for _, ss := range []int{base - 2, base - 1, base, base + 1, base + 2, base + 3} {
			if (ss-N)%2 != 0 {
				continue
			}
			h := histWithSS(N, k, ss)
			if h == nil {
				continue
			}
			data := fromHist(h, m, L, 1)
			p, _ := refmodel.Poker(refmodel.Bits(data), m)
			gmu.Lock()
			if d := math.Abs(p - 0.01); d > worstGap && d < 1e-3 {
				worstGap = d
			}
			gmu.Unlock()
			atomic.AddInt64(&nearest, 1)
			s.one(data, func() interface{} {
				return map[string]interface{}{"bytes": L, "m_expected": m, "sum_of_squares_of_pattern_counts": ss, "critical_sum_of_squares": target}
			})
		}
		s.distinct.Add(fmt.Sprint("critical ", L))
	})
	samples = append(samples, map[string]interface{}{"family": "decision boundary", "lengths": fmt.Sprintf("%d lengths in 40..4096 bytes", len(critLens)), "cases": nearest,
		"rule": "per length the reachable sums of squares next to the one where P = 0.01 (both sides)", "largest_|P-0.01|_among_them": worstGap})
	samples = append(samples, map[string]interface{}{"family": "m=4 / m=8 regimes", "bytes": []int{40, 41, 100, 1279, 1280, 1281, 2000, 4096}, "cases": "from the uniform histogram, t blocks moved from classes 1..k to class 0 for every feasible t (k in {1,3,7,2^m-1}), two block arrangements: P crosses 0.01 for the right m at a different t than for a wrong m"})
	cov := common.Coverage{
		"evaluations":         int(s.evals),
		"distinct_nontrivial": s.distinct.Len(),
		"rule": "every requested length 0..4096 (and 12500, 125000) on five contents (error below 16 bytes, bytes consumed); m=2 regime: every histogram of the four 2-bit patterns for the listed byte counts; m=4/m=8 regimes at both sides of 320 and 10240 bits: skew families through P=0.01; " +
			"oracle: refmodel poker with m = 2/4/8 by length, verdict = (P >= 0.01); histograms with |P-0.01|<1e-9 skipped; distinct = distinct (length | histogram slice | skew point) classes",
		"samples":                 samples,
		"verdicts_true":           s.trueSeen,
		"verdicts_false":          s.falseSeen,
		"skipped_on_the_boundary": s.skipped,
		"exhaustive":              exhaustive,
	}
	return ctx.Finish("exploration", cov, []string{"contents beyond the histogram are irrelevant to the poker statistic (block permutations are C17's subject)", "oracle: refmodel.Poker"})
}

// fromHist2 realises a histogram of 2-bit patterns as L bytes (patterns in ascending order).
// critical returns the chi-square value with Q(df/2, v/2) = 0.01 (bisection on the reference Q).
func critical(df int) float64 {
	lo, hi := 0.0, 2000.0
	for i := 0; i < 200; i++ {
		mid := (lo + hi) / 2
		if refmodel.QBig(df, mid/2) > 0.01 {
			lo = mid
		} else {
			hi = mid
		}
	}
	return (lo + hi) / 2
}

// histWithSS builds counts of k classes summing to N whose squares sum to ss (nil if the greedy search fails):
// from the flat histogram, single blocks are moved between classes; a move from a class holding b blocks to one
// holding a >= b-1 adds 2(a-b+1).
func histWithSS(N, k, ss int) []int {
	h := make([]int, k)
	for i := 0; i < N; i++ {
		h[i%k]++
	}
	cur := 0
	for _, c := range h {
		cur += c * c
	}
	for steps := 0; cur < ss && steps < 100000; steps++ {
		rem := ss - cur
		bi, bj, best := -1, -1, 0
		// candidates for the receiving class: the three fullest ones; for the giving class: every class
		top := []int{0, 0, 0}
		for t := range top {
			top[t] = -1
			for i := range h {
				if (top[t] < 0 || h[i] > h[top[t]]) && (t < 1 || i != top[0]) && (t < 2 || i != top[1]) {
					top[t] = i
				}
			}
		}
		for _, i := range top {
			for j := range h {
				if j == i || h[j] == 0 {
					continue
				}
				if d := 2 * (h[i] - h[j] + 1); d > best && d <= rem {
					bi, bj, best = i, j, d
				}
			}
		}
		if bi < 0 {
			// the receivers tried are too full for the small remainder: any pair of equal classes adds exactly 2
			for i := range h {
				for j := i + 1; j < len(h) && bi < 0; j++ {
					if h[i] == h[j] && h[i] > 0 && rem >= 2 {
						bi, bj, best = i, j, 2
					}
				}
				if bi >= 0 {
					break
				}
			}
		}
		if bi < 0 {
			return nil
		}
		h[bi]++
		h[bj]--
		cur += best
	}
	if cur != ss {
		return nil
	}
	return h
}

func fromHist2(h []int, L int) []byte { return fromHist(h, 2, L, 0) }

// fromHist realises a histogram of m-bit patterns (m in 2,4,8) as L bytes; arrangement 0 = ascending, 1 = interleaved.
func fromHist(h []int, m, L, arrangement int) []byte {
	units := 8 * L / m
	seq := make([]int, 0, units)
	if arrangement == 0 {
		for c, n := range h {
			for i := 0; i < n; i++ {
				seq = append(seq, c)
			}
		}
	} else {
		rem := append([]int{}, h...)
		for len(seq) < units {
			for c := len(rem) - 1; c >= 0; c-- {
				if rem[c] > 0 {
					rem[c]--
					seq = append(seq, c)
				}
			}
		}
	}
	out := make([]byte, L)
	per := 8 / m
	for i, c := range seq {
		shift := uint(8 - m*(i%per+1))
		out[i/per] |= byte(c) << shift
	}
	return out
}
