// Package wf lists the detection workflows of the library.
package wf

import (
	"io"

	"github.com/Trisia/randomness/detect"
)

type WF struct {
	Name  string
	Seq   func(io.Reader) (bool, error)
	Fast  func(io.Reader) (bool, error)
	S     int // samples
	N     int // bytes per sample
	Items int // registry items judged
}

var All = []WF{
	{"Factory", detect.FactoryDetect, detect.FactoryDetectFast, 50, 125000, 15},
	{"PowerOn", detect.PowerOnDetect, detect.PowerOnDetectFast, 20, 125000, 15},
	{"Period", detect.PeriodDetect, detect.PeriodDetectFast, 20, 2500, 12},
}

func ByName(n string) *WF {
	for i := range All {
		if All[i].Name == n {
			return &All[i]
		}
	}
	return nil
}

// Partitions enumerates all partitions of s into at most parts positive parts (descending).
func Partitions(s, parts int, f func(p []int)) {
	cur := make([]int, 0, parts)
	var rec func(rem, max int)
	rec = func(rem, max int) {
		if rem == 0 {
			f(cur)
			return
		}
		if len(cur) == parts {
			return
		}
		if max > rem {
			max = rem
		}
		for v := max; v >= 1; v-- {
			cur = append(cur, v)
			rec(rem-v, v)
			cur = cur[:len(cur)-1]
		}
	}
	rec(s, s)
}
