// Package calls tabulates the bit-oriented entry points of the fifteen tests with every documented
// parameter, next to the corresponding reference-model function.
package calls

import (
	"fmt"

	r "github.com/Trisia/randomness"

	"verif/refmodel"
)

// Call is one parameterised entry point.
type Call struct {
	Name  string
	Group string // property that owns the value comparison
	Min   int    // smallest admissible n for enumeration (the function's own minimum)
	Impl  func(bits []bool) []float64
	Ref   func(bits []bool) []float64
	Chi   bool // chi-square test: Q == P ; otherwise two-sided normal: P = 2 min(Q, 1-Q)
	// Slack, if set, is an additional per-component tolerance: how far the value legitimately moves
	// under floating-point evaluation of an ill-conditioned statistic (stated per call in DESIGN.md).
	Slack func(bits []bool) []float64
}

func pq(p, q float64) []float64 { return []float64{p, q} }

// All returns the table. maxN bounds parameters that depend on n (block length n).
func All() []Call {
	var cs []Call
	add := func(c Call) { cs = append(cs, c) }
	add(Call{"MonoBitFrequencyTest", "C01", 1, func(b []bool) []float64 { return pq(r.MonoBitFrequencyTest(b)) }, func(b []bool) []float64 { return pq(refmodel.Monobit(b)) }, false, nil})
	add(Call{"FrequencyWithinBlockTest(auto)", "C01", 10, func(b []bool) []float64 { return pq(r.FrequencyWithinBlockTest(b)) },
		func(b []bool) []float64 { return pq(refmodel.BlockFreq(b, refmodel.AutoM(len(b)))) }, true, nil})
	for _, m := range []int{2, 3, 5, 8, 10} {
		m := m
		add(Call{fmt.Sprintf("FrequencyWithinBlockProto(m=%d)", m), "C01", m, func(b []bool) []float64 { return pq(r.FrequencyWithinBlockProto(b, m)) },
			func(b []bool) []float64 { return pq(refmodel.BlockFreq(b, m)) }, true, nil})
	}
	add(Call{"FrequencyWithinBlockProto(m=n)", "C01", 2, func(b []bool) []float64 { return pq(r.FrequencyWithinBlockProto(b, len(b))) },
		func(b []bool) []float64 { return pq(refmodel.BlockFreq(b, len(b))) }, true, nil})
	for _, m := range []int{2, 4, 8} {
		m := m
		add(Call{fmt.Sprintf("PokerProto(m=%d)", m), "C01", 8, func(b []bool) []float64 { return pq(r.PokerProto(b, m)) },
			func(b []bool) []float64 { return pq(refmodel.Poker(b, m)) }, true, nil})
	}
	for _, m := range []int{2, 3, 5, 7} {
		m := m
		add(Call{fmt.Sprintf("OverlappingTemplateMatchingProto(m=%d)", m), "C01", 8, func(b []bool) []float64 {
			p1, p2, q1, q2 := r.OverlappingTemplateMatchingProto(b, m)
			return []float64{p1, p2, q1, q2}
		}, func(b []bool) []float64 {
			p1, p2, q1, q2 := refmodel.Overlapping(b, m)
			return []float64{p1, p2, q1, q2}
		}, true, func(b []bool) []float64 { return refmodel.OverlappingSlack(b, m) }})
	}
	for _, m := range []int{2, 5, 7} {
		m := m
		add(Call{fmt.Sprintf("ApproximateEntropyProto(m=%d)", m), "C01", 8, func(b []bool) []float64 { return pq(r.ApproximateEntropyProto(b, m)) },
			func(b []bool) []float64 { return pq(refmodel.ApEn(b, m)) }, true, nil})
	}
	// C02
	add(Call{"RunsTest", "C02", 1, func(b []bool) []float64 { return pq(r.RunsTest(b)) }, func(b []bool) []float64 { return pq(refmodel.Runs(b)) }, false, nil})
	add(Call{"RunsDistributionTest", "C02", 100, func(b []bool) []float64 { return pq(r.RunsDistributionTest(b)) }, func(b []bool) []float64 { return pq(refmodel.RunsDist(b)) }, true, nil})
	add(Call{"LongestRunOfOnesInABlockProto(ones)", "C02", 128, func(b []bool) []float64 { return pq(r.LongestRunOfOnesInABlockProto(b, true)) },
		func(b []bool) []float64 { return pq(refmodel.LongestRun(b, true)) }, true, nil})
	add(Call{"LongestRunOfOnesInABlockProto(zeros)", "C02", 128, func(b []bool) []float64 { return pq(r.LongestRunOfOnesInABlockProto(b, false)) },
		func(b []bool) []float64 { return pq(refmodel.LongestRun(b, false)) }, true, nil})
	// C03
	for _, k := range []int{3, 7, 15} {
		k := k
		add(Call{fmt.Sprintf("BinaryDerivativeProto(k=%d)", k), "C03", max(7, k+1), func(b []bool) []float64 { return pq(r.BinaryDerivativeProto(b, k)) },
			func(b []bool) []float64 { return pq(refmodel.BinaryDerivative(b, k)) }, false, nil})
	}
	for _, d := range []int{1, 2, 8, 16, 32} {
		d := d
		add(Call{fmt.Sprintf("AutocorrelationProto(d=%d)", d), "C03", max(16, d+1), func(b []bool) []float64 { return pq(r.AutocorrelationProto(b, d)) },
			func(b []bool) []float64 { return pq(refmodel.Autocorrelation(b, d)) }, false, nil})
	}
	add(Call{"CumulativeTest(forward)", "C03", 1, func(b []bool) []float64 { return pq(r.CumulativeTest(b, true)) }, func(b []bool) []float64 { return pq(refmodel.Cusum(b, true)) }, true, nil})
	add(Call{"CumulativeTest(backward)", "C03", 1, func(b []bool) []float64 { return pq(r.CumulativeTest(b, false)) }, func(b []bool) []float64 { return pq(refmodel.Cusum(b, false)) }, true, nil})
	// C04
	add(Call{"MatrixRankProto(32,32)", "C04", 1024, func(b []bool) []float64 { return pq(r.MatrixRankProto(b, 32, 32)) }, func(b []bool) []float64 { return pq(refmodel.MatrixRank(b)) }, true, nil})
	for _, m := range []int{500, 1000, 5000} {
		m := m
		add(Call{fmt.Sprintf("LinearComplexityProto(m=%d)", m), "C04", m, func(b []bool) []float64 { return pq(r.LinearComplexityProto(b, m)) },
			func(b []bool) []float64 { return pq(refmodel.LinearComplexity(b, m)) }, true, nil})
	}
	add(Call{"MaurerUniversalTest", "C04", 7 * 1281, func(b []bool) []float64 { return pq(r.MaurerUniversalTest(b)) }, func(b []bool) []float64 { return pq(refmodel.Maurer(b)) }, false, nil})
	return cs
}

// ByGroup filters the table.
func ByGroup(g string) []Call {
	var out []Call
	for _, c := range All() {
		if c.Group == g {
			out = append(out, c)
		}
	}
	return out
}

func max(a, b int) int {
	if a > b {
		return a
	}
	return b
}

// LinearComplexityCalls returns the linear-complexity call for arbitrary block lengths (small m for
// exhaustive block enumeration).
func LinearComplexityCalls(ms []int) []Call {
	var out []Call
	for _, m := range ms {
		m := m
		out = append(out, Call{fmt.Sprintf("LinearComplexityProto(m=%d)", m), "C04", m, func(b []bool) []float64 { return pq(r.LinearComplexityProto(b, m)) },
			func(b []bool) []float64 { return pq(refmodel.LinearComplexity(b, m)) }, true, nil})
	}
	return out
}
