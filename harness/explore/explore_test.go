package explore

import (
	"fmt"
	"testing"

	"verif/vsched"
)

// lost update: two threads do load;store on a shared counter
func TestLostUpdate(t *testing.T) {
	for bound := 0; bound <= 2; bound++ {
		cfg := Config{Name: "lost", Bound: bound, NewExec: func() (func(), func(*vsched.Exec) Verdict) {
			var c int32
			body := func() {
				var wg vsched.WaitGroup
				wg.Add(2)
				for i := 0; i < 2; i++ {
					vsched.Go(func() {
						v := vsched.LoadInt32(&c)
						vsched.StoreInt32(&c, v+1)
						wg.Done()
					})
				}
				wg.Wait()
			}
			return body, func(x *vsched.Exec) Verdict {
				v := Verdict{Signature: fmt.Sprint(c, x.Outcome)}
				if c != 2 {
					v.Violation = fmt.Sprint("counter=", c)
				}
				return v
			}
		}}
		st := Explore(cfg)
		t.Logf("bound %d: execs=%d states=%d found=%v err=%s sigs=%v", bound, st.Execs, len(st.States), st.Found != nil, st.ToolError, st.Signatures)
		if st.ToolError != "" {
			t.Fatal(st.ToolError)
		}
		if bound == 0 && st.Found != nil {
			t.Fatal("bound 0 should not find it")
		}
		if bound >= 1 && st.Found == nil {
			t.Fatal("should find lost update")
		}
	}
}

// worker pool with a missing Done on one path: deadlock
func TestDeadlock(t *testing.T) {
	cfg := Config{Name: "dl", Bound: 1, NewExec: func() (func(), func(*vsched.Exec) Verdict) {
		body := func() {
			jobs := vsched.NewChan[int](0)
			var wg vsched.WaitGroup
			for w := 0; w < 2; w++ {
				vsched.Go(func() {
					for i, ok := jobs.Recv(); ok; i, ok = jobs.Recv() {
						if i == 1 {
							continue
						}
						wg.Done()
					}
				})
			}
			wg.Add(3)
			for i := 0; i < 3; i++ {
				jobs.Send(i)
			}
			wg.Wait()
			jobs.Close()
		}
		return body, func(x *vsched.Exec) Verdict {
			v := Verdict{Signature: x.Outcome.String()}
			if x.Outcome != vsched.OutDone {
				v.Violation = x.Outcome.String() + fmt.Sprint(x.Blocked)
			}
			return v
		}
	}}
	st := Explore(cfg)
	if st.Found == nil || st.ToolError != "" {
		t.Fatal("deadlock not found", st.ToolError)
	}
	t.Log(st.Found.Violation, st.Found.Choices)
}

// correct worker pool: all schedules end, results complete
func TestPoolOK(t *testing.T) {
	for bound := 0; bound <= 2; bound++ {
		cfg := Config{Name: "ok", Bound: bound, NewExec: func() (func(), func(*vsched.Exec) Verdict) {
			res := make([]int, 4)
			body := func() {
				jobs := vsched.NewChan[int](0)
				var wg vsched.WaitGroup
				for w := 0; w < 3; w++ {
					vsched.Go(func() {
						for i, ok := jobs.Recv(); ok; i, ok = jobs.Recv() {
							res[i] = i + 1
							wg.Done()
						}
					})
				}
				wg.Add(4)
				for i := 0; i < 4; i++ {
					jobs.Send(i)
				}
				wg.Wait()
				jobs.Close()
			}
			return body, func(x *vsched.Exec) Verdict {
				v := Verdict{Signature: fmt.Sprint(res, x.Outcome)}
				if x.Outcome != vsched.OutDone || fmt.Sprint(res) != "[1 2 3 4]" {
					v.Violation = fmt.Sprint(res, x.Outcome, x.Blocked)
				}
				return v
			}
		}}
		st := Explore(cfg)
		t.Logf("bound %d: execs=%d trans=%d states=%d maxpoints=%d", bound, st.Execs, st.Transitions, len(st.States), st.MaxPoints)
		if st.Found != nil || st.ToolError != "" {
			t.Fatal(st.Found, st.ToolError)
		}
	}
}

// sharding covers the same number of executions as one shard
func TestShards(t *testing.T) {
	mk := func(shard, n int) *Stats {
		return Explore(Config{Name: "s", Bound: 2, Shard: shard, NShards: n, NewExec: func() (func(), func(*vsched.Exec) Verdict) {
			var c int32
			body := func() {
				var wg vsched.WaitGroup
				wg.Add(3)
				for i := 0; i < 3; i++ {
					vsched.Go(func() { vsched.AddInt32(&c, 1); vsched.AddInt32(&c, 1); wg.Done() })
				}
				wg.Wait()
			}
			return body, func(x *vsched.Exec) Verdict { return Verdict{Signature: fmt.Sprint(c)} }
		}})
	}
	one := mk(0, 1).Execs
	sum := 0
	for i := 0; i < 4; i++ {
		sum += mk(i, 4).Execs
	}
	if one != sum {
		t.Fatalf("one=%d sum=%d", one, sum)
	}
	t.Log(one)
}

// a channel made outside any execution (package-level limiter of the code under test): adopted and
// modelled, every execution starts from its post-init contents, a leaked slot is a visible deadlock
var pkgSlots = func() *vsched.Chan[int] {
	c := vsched.NewChan[int](3)
	c.Send(7) // one slot taken during "package initialisation"
	return c
}()

func TestPackageLevelChannel(t *testing.T) {
	for _, leak := range []bool{false, true} {
		var lens []int
		cfg := Config{Name: "pkgchan", Bound: 1, CostAll: true, NewExec: func() (func(), func(*vsched.Exec) Verdict) {
			body := func() {
				lens = append(lens, pkgSlots.Len())
				var wg vsched.WaitGroup
				wg.Add(3)
				for i := 0; i < 3; i++ {
					i := i
					vsched.Go(func() {
						pkgSlots.Send(i)
						if !(leak && i == 0) {
							pkgSlots.Recv()
						}
						wg.Done()
					})
				}
				wg.Wait()
				if leak {
					pkgSlots.Send(9)
					pkgSlots.Send(9) // 1 (init) + 1 leaked + 2 = 4 > cap 3
				}
			}
			return body, func(x *vsched.Exec) Verdict {
				v := Verdict{Signature: x.Outcome.String()}
				if x.Outcome != vsched.OutDone {
					v.Violation = x.Outcome.String()
				}
				return v
			}
		}}
		st := Explore(cfg)
		if st.ToolError != "" {
			t.Fatal(st.ToolError)
		}
		for _, l := range lens {
			if l != 1 {
				t.Fatalf("execution did not start from the post-init contents: len %d", l)
			}
		}
		if leak != (st.Found != nil) {
			t.Fatalf("leak=%v found=%v", leak, st.Found)
		}
		t.Logf("leak=%v execs=%d found=%v", leak, st.Execs, st.Found != nil)
	}
	if pkgSlots.Len() != 1 {
		t.Fatalf("real channel contents disturbed: %d", pkgSlots.Len())
	}
}

// select statements outside a controlled execution run on the real channels
func TestSelectOutsideExecution(t *testing.T) {
	c := vsched.NewChan[int](1)
	d := vsched.NewChan[string](0)
	if i, _, _ := vsched.Select(true, c.RecvCase(), d.RecvCase()); i != -1 {
		t.Fatal("default expected", i)
	}
	if i, _, _ := vsched.Select(false, c.SendCase(5), d.RecvCase()); i != 0 {
		t.Fatal("send expected", i)
	}
	if i, _, _ := vsched.Select(true, c.SendCase(6)); i != -1 {
		t.Fatal("full buffer: default expected", i)
	}
	i, v, ok := vsched.Select(false, d.RecvCase(), c.RecvCase())
	if i != 1 || !ok || vsched.As(c, v) != 5 {
		t.Fatal("recv expected", i, v, ok)
	}
	var nilc *vsched.Chan[int]
	if i, _, _ := vsched.Select(true, nilc.RecvCase(), nilc.SendCase(1)); i != -1 {
		t.Fatal("nil channels never ready", i)
	}
}

// a helper pool built on first use inside a sync.Once: rebuilt in every execution, its blocked helpers are
// not a leak that taints the process, and a reply handed to the wrong caller is found
type poolHelper struct {
	tasks *vsched.Chan[int]
	out   *vsched.Chan[int]
}

var (
	poolOnce vsched.Once
	poolIdle *vsched.Chan[*poolHelper]
)

func poolStart() {
	poolIdle = vsched.NewChan[*poolHelper](2)
	for i := 0; i < 2; i++ {
		h := &poolHelper{tasks: vsched.NewChan[int](0), out: vsched.NewChan[int](1)}
		vsched.Go(func() {
			for v, ok := h.tasks.Recv(); ok; v, ok = h.tasks.Recv() {
				h.out.Send(v * 10)
				poolIdle.Send(h) // back on the idle queue before the owner has collected: the slip
			}
		})
		poolIdle.Send(h)
	}
}

func poolCall(v int) int {
	poolOnce.Do(poolStart)
	i, hv, _ := vsched.Select(true, poolIdle.RecvCase())
	if i < 0 {
		return v * 10
	}
	h := vsched.As(poolIdle, hv)
	h.tasks.Send(v)
	vsched.Yield("work")
	return h.out.Recv1()
}

func TestOncePoolRebuiltPerExecution(t *testing.T) {
	starts := 0
	cfg := Config{Name: "oncepool", Bound: 3, CostAll: true, NewExec: func() (func(), func(*vsched.Exec) Verdict) {
		res := make([]int, 3)
		body := func() {
			var wg vsched.WaitGroup
			wg.Add(3)
			for k := 0; k < 3; k++ {
				k := k
				vsched.Go(func() { res[k] = poolCall(k + 1); wg.Done() })
			}
			wg.Wait()
		}
		return body, func(x *vsched.Exec) Verdict {
			starts++
			v := Verdict{Signature: fmt.Sprint(x.Outcome, res)}
			if x.Outcome != vsched.OutLeak || !x.LeakFromOnce {
				v.Violation = fmt.Sprint("expected the pool's helpers left blocked (from Once), got ", x.Outcome, x.LeakFromOnce, x.Blocked)
			} else if fmt.Sprint(res) != "[10 20 30]" {
				v.Violation = fmt.Sprint("reply handed to the wrong caller: ", res)
			}
			return v
		}
	}}
	st := Explore(cfg)
	if st.ToolError != "" {
		t.Fatal(st.ToolError)
	}
	if st.Found == nil || st.Execs < 3 {
		t.Fatalf("the mix-up was not found (execs %d, found %v, capped %q)", st.Execs, st.Found, st.Capped)
	}
	t.Logf("execs=%d found=%s", st.Execs, st.Found.Violation)
}

// buffered channels are FIFO in every schedule: a value sent while a receiver stands at its scheduling point
// must not overtake the values already buffered
func TestBufferedChannelIsFIFO(t *testing.T) {
	cfg := Config{Name: "fifo", Bound: 3, CostAll: true, NewExec: func() (func(), func(*vsched.Exec) Verdict) {
		var got []int
		body := func() {
			c := vsched.NewChan[int](4)
			c.Send(1)
			c.Send(2)
			var wg vsched.WaitGroup
			wg.Add(1)
			vsched.Go(func() { c.Send(3); wg.Done() })
			for k := 0; k < 2; k++ {
				// data is buffered: the select never takes its default; the concurrent send must not be handed over directly
				if i, v, _ := vsched.Select(true, c.RecvCase()); i == 0 {
					got = append(got, vsched.As(c, v))
				}
			}
			got = append(got, c.Recv1())
			wg.Wait()
		}
		return body, func(x *vsched.Exec) Verdict {
			v := Verdict{Signature: fmt.Sprint(x.Outcome, got)}
			if x.Outcome != vsched.OutDone || fmt.Sprint(got) != "[1 2 3]" {
				v.Violation = fmt.Sprint("received ", got, " ", x.Outcome)
			}
			return v
		}
	}}
	st := Explore(cfg)
	if st.ToolError != "" {
		t.Fatal(st.ToolError)
	}
	if st.Found != nil {
		t.Fatal(st.Found.Violation)
	}
	t.Logf("execs=%d", st.Execs)
}
