package explore

import (
	"fmt"
	"testing"

	"verif/vsched"
)

// lost update: two threads do load;store on a shared counter
func TestLostUpdate(t *testing.T) {
	for bound := 0; bound <= 2; bound++ {
		cfg := Config{Name: "lost", Bound: bound, NewExec: func() (func(), func(*vsched.Exec) Verdict) {
			var c int32
			body := func() {
				var wg vsched.WaitGroup
				wg.Add(2)
				for i := 0; i < 2; i++ {
					vsched.Go(func() {
						v := vsched.LoadInt32(&c)
						vsched.StoreInt32(&c, v+1)
						wg.Done()
					})
				}
				wg.Wait()
			}
			return body, func(x *vsched.Exec) Verdict {
				v := Verdict{Signature: fmt.Sprint(c, x.Outcome)}
				if c != 2 {
					v.Violation = fmt.Sprint("counter=", c)
				}
				return v
			}
		}}
		st := Explore(cfg)
		t.Logf("bound %d: execs=%d states=%d found=%v err=%s sigs=%v", bound, st.Execs, len(st.States), st.Found != nil, st.ToolError, st.Signatures)
		if st.ToolError != "" {
			t.Fatal(st.ToolError)
		}
		if bound == 0 && st.Found != nil {
			t.Fatal("bound 0 should not find it")
		}
		if bound >= 1 && st.Found == nil {
			t.Fatal("should find lost update")
		}
	}
}

// worker pool with a missing Done on one path: deadlock
func TestDeadlock(t *testing.T) {
	cfg := Config{Name: "dl", Bound: 1, NewExec: func() (func(), func(*vsched.Exec) Verdict) {
		body := func() {
			jobs := vsched.NewChan[int](0)
			var wg vsched.WaitGroup
			for w := 0; w < 2; w++ {
				vsched.Go(func() {
					for i, ok := jobs.Recv(); ok; i, ok = jobs.Recv() {
						if i == 1 {
							continue
						}
						wg.Done()
					}
				})
			}
			wg.Add(3)
			for i := 0; i < 3; i++ {
				jobs.Send(i)
			}
			wg.Wait()
			jobs.Close()
		}
		return body, func(x *vsched.Exec) Verdict {
			v := Verdict{Signature: x.Outcome.String()}
			if x.Outcome != vsched.OutDone {
				v.Violation = x.Outcome.String() + fmt.Sprint(x.Blocked)
			}
			return v
		}
	}}
	st := Explore(cfg)
	if st.Found == nil || st.ToolError != "" {
		t.Fatal("deadlock not found", st.ToolError)
	}
	t.Log(st.Found.Violation, st.Found.Choices)
}

// correct worker pool: all schedules end, results complete
func TestPoolOK(t *testing.T) {
	for bound := 0; bound <= 2; bound++ {
		cfg := Config{Name: "ok", Bound: bound, NewExec: func() (func(), func(*vsched.Exec) Verdict) {
			res := make([]int, 4)
			body := func() {
				jobs := vsched.NewChan[int](0)
				var wg vsched.WaitGroup
				for w := 0; w < 3; w++ {
					vsched.Go(func() {
						for i, ok := jobs.Recv(); ok; i, ok = jobs.Recv() {
							res[i] = i + 1
							wg.Done()
						}
					})
				}
				wg.Add(4)
				for i := 0; i < 4; i++ {
					jobs.Send(i)
				}
				wg.Wait()
				jobs.Close()
			}
			return body, func(x *vsched.Exec) Verdict {
				v := Verdict{Signature: fmt.Sprint(res, x.Outcome)}
				if x.Outcome != vsched.OutDone || fmt.Sprint(res) != "[1 2 3 4]" {
					v.Violation = fmt.Sprint(res, x.Outcome, x.Blocked)
				}
				return v
			}
		}}
		st := Explore(cfg)
		t.Logf("bound %d: execs=%d trans=%d states=%d maxpoints=%d", bound, st.Execs, st.Transitions, len(st.States), st.MaxPoints)
		if st.Found != nil || st.ToolError != "" {
			t.Fatal(st.Found, st.ToolError)
		}
	}
}

// sharding covers the same number of executions as one shard
func TestShards(t *testing.T) {
	mk := func(shard, n int) *Stats {
		return Explore(Config{Name: "s", Bound: 2, Shard: shard, NShards: n, NewExec: func() (func(), func(*vsched.Exec) Verdict) {
			var c int32
			body := func() {
				var wg vsched.WaitGroup
				wg.Add(3)
				for i := 0; i < 3; i++ {
					vsched.Go(func() { vsched.AddInt32(&c, 1); vsched.AddInt32(&c, 1); wg.Done() })
				}
				wg.Wait()
			}
			return body, func(x *vsched.Exec) Verdict { return Verdict{Signature: fmt.Sprint(c)} }
		}})
	}
	one := mk(0, 1).Execs
	sum := 0
	for i := 0; i < 4; i++ {
		sum += mk(i, 4).Execs
	}
	if one != sum {
		t.Fatalf("one=%d sum=%d", one, sum)
	}
	t.Log(one)
}

// a channel made outside any execution (package-level limiter of the code under test): adopted and
// modelled, every execution starts from its post-init contents, a leaked slot is a visible deadlock
var pkgSlots = func() *vsched.Chan[int] {
	c := vsched.NewChan[int](3)
	c.Send(7) // one slot taken during "package initialisation"
	return c
}()

func TestPackageLevelChannel(t *testing.T) {
	for _, leak := range []bool{false, true} {
		var lens []int
		cfg := Config{Name: "pkgchan", Bound: 1, CostAll: true, NewExec: func() (func(), func(*vsched.Exec) Verdict) {
			body := func() {
				lens = append(lens, pkgSlots.Len())
				var wg vsched.WaitGroup
				wg.Add(3)
				for i := 0; i < 3; i++ {
					i := i
					vsched.Go(func() {
						pkgSlots.Send(i)
						if !(leak && i == 0) {
							pkgSlots.Recv()
						}
						wg.Done()
					})
				}
				wg.Wait()
				if leak {
					pkgSlots.Send(9)
					pkgSlots.Send(9) // 1 (init) + 1 leaked + 2 = 4 > cap 3
				}
			}
			return body, func(x *vsched.Exec) Verdict {
				v := Verdict{Signature: x.Outcome.String()}
				if x.Outcome != vsched.OutDone {
					v.Violation = x.Outcome.String()
				}
				return v
			}
		}}
		st := Explore(cfg)
		if st.ToolError != "" {
			t.Fatal(st.ToolError)
		}
		for _, l := range lens {
			if l != 1 {
				t.Fatalf("execution did not start from the post-init contents: len %d", l)
			}
		}
		if leak != (st.Found != nil) {
			t.Fatalf("leak=%v found=%v", leak, st.Found)
		}
		t.Logf("leak=%v execs=%d found=%v", leak, st.Execs, st.Found != nil)
	}
	if pkgSlots.Len() != 1 {
		t.Fatalf("real channel contents disturbed: %d", pkgSlots.Len())
	}
}

// select statements outside a controlled execution run on the real channels
func TestSelectOutsideExecution(t *testing.T) {
	c := vsched.NewChan[int](1)
	d := vsched.NewChan[string](0)
	if i, _, _ := vsched.Select(true, c.RecvCase(), d.RecvCase()); i != -1 {
		t.Fatal("default expected", i)
	}
	if i, _, _ := vsched.Select(false, c.SendCase(5), d.RecvCase()); i != 0 {
		t.Fatal("send expected", i)
	}
	if i, _, _ := vsched.Select(true, c.SendCase(6)); i != -1 {
		t.Fatal("full buffer: default expected", i)
	}
	i, v, ok := vsched.Select(false, d.RecvCase(), c.RecvCase())
	if i != 1 || !ok || vsched.As(c, v) != 5 {
		t.Fatal("recv expected", i, v, ok)
	}
	var nilc *vsched.Chan[int]
	if i, _, _ := vsched.Select(true, nilc.RecvCase(), nilc.SendCase(1)); i != -1 {
		t.Fatal("nil channels never ready", i)
	}
}
