// Package explore is the stateless, preemption-bounded depth-first explorer on top of vsched.
package explore

import (
	"fmt"
	"time"

	"verif/vsched"
)

// Verdict of the harness for one execution.
type Verdict struct {
	Violation string // empty = property held on this execution
	Signature string // observable outcome of the execution (for "distinct outcomes" and determinism)
	// Persistent: the code under test left goroutines alive (blocked) after the call returned and the property
	// does not forbid that (a helper pool). They die with the controlled execution while package-level state
	// (a sync.Once, the pool's bookkeeping) survives, so later executions of this process would run against a
	// pool without helpers: the exploration stops after this execution and says so (never an alarm).
	Persistent bool
}

const persistentNote = "the code under test keeps goroutines alive after the call returned (a helper pool); they end with the controlled execution while package-level state survives, so only the first execution of the process is meaningful - explored 1 execution, no alarm"

// Config of one exploration.
type Config struct {
	Name string
	// NewExec builds fresh harness state; body runs as thread 0; check is called after the execution.
	NewExec  func() (body func(), check func(x *vsched.Exec) Verdict)
	Bound    int  // preemption bound (CostAll: bound on all non-default scheduling choices)
	CostAll  bool // every non-default scheduling choice costs 1, also where the running thread was blocked
	EnvBound int  // bound on environment deviations (vsched.Choose)
	Opt      vsched.Options
	Shard    int
	NShards  int
	Deadline time.Time
	MaxExecs int
}

// Found is a violation with its schedule.
type Found struct {
	Choices   []int
	Violation string
	Outcome   string
	Blocked   []string
	PanicVal  string
	Stack     string
	Log       []string
}

// Stats of an exploration.
type Stats struct {
	Name        string
	Bound       int
	Execs       int
	Transitions int
	MaxPoints   int
	MaxThreads  int
	States      map[uint64]struct{}
	Outcomes    map[string]int
	Signatures  map[string]int
	Capped      string // non-empty: which cap ended the run early
	RootPoints  int
	Found       *Found
	ToolError   string
	SampleSched []int
	Warmup      bool // the first execution of the process differed from the later ones (lazily built package state)
}

// PersistentNote is the cap reason used when the code under test keeps goroutines alive across calls.
const PersistentNote = persistentNote

// Controlled runs body as the only thread of a controlled execution (default schedule). Reference values are
// computed this way, never free-running inside a process that also explores: goroutines started by a
// free-running call would wait on real channels while the explored calls talk to the modelled ones.
// leaked reports that body left goroutines blocked behind (they are ended with the execution).
func Controlled(body func(), opt vsched.Options) (leaked bool, panicVal string) {
	x := vsched.Run(body, nil, opt)
	switch x.Outcome {
	case vsched.OutLeak:
		// goroutines started inside a sync.Once function are started again by the next execution
		return !x.LeakFromOnce, ""
	case vsched.OutPanic:
		return false, x.PanicVal
	case vsched.OutDone:
		return false, ""
	}
	return false, "reference run ended with " + x.Outcome.String()
}

func (c *Config) run(prefix []int, trace bool) (*vsched.Exec, Verdict) {
	body, check := c.NewExec()
	opt := c.Opt
	opt.TraceLog = trace
	x := vsched.Run(body, prefix, opt)
	v := check(x)
	return x, v
}

func cost(points []vsched.PointRec, upto int, all bool) (pre, env int) {
	for j := 0; j < upto; j++ {
		p := points[j]
		if p.Choice != 0 {
			if p.Env {
				env++
			} else if p.RunningEnabled || all {
				pre++
			}
		}
	}
	return
}

// Explore runs the exploration for exactly one bound (all executions with at most Bound preemptions).
func Explore(c Config) *Stats {
	st := &Stats{Name: c.Name, Bound: c.Bound, States: map[uint64]struct{}{}, Outcomes: map[string]int{}, Signatures: map[string]int{}}
	if c.NShards <= 0 {
		c.NShards = 1
	}
	// determinism: the root schedule twice, identical observation logs and signatures
	x1, v1 := c.run(nil, false)
	if v1.Persistent && v1.Violation == "" {
		st.Execs, st.Transitions = 1, x1.Steps
		st.Outcomes[x1.Outcome.String()]++
		st.Signatures[v1.Signature]++
		st.Capped = persistentNote
		return st
	}
	x2, v2 := c.run(nil, false)
	if x1.LogHash != x2.LogHash || v1.Signature != v2.Signature || len(x1.Points) != len(x2.Points) {
		// package-level state that is built lazily (a sync.Once, a cache) makes the very first execution of
		// a process different from all later ones: allow one warm-up execution, then insist on determinism
		if handleWarm := v1.Violation != ""; handleWarm {
			// the cold execution itself violates the property: report it (re-run from cold is impossible, so
			// it is reported as found on the first execution only)
			st.Found = &Found{Choices: x1.Choices(), Violation: v1.Violation + " (on the first execution of the process)", Outcome: x1.Outcome.String(), Blocked: x1.Blocked, PanicVal: x1.PanicVal, Stack: x1.PanicStack}
			st.Execs = 1
			return st
		}
		x1, v1 = x2, v2
		x2, v2 = c.run(nil, false)
		st.Warmup = true
	}
	if x1.LogHash != x2.LogHash || v1.Signature != v2.Signature || len(x1.Points) != len(x2.Points) {
		st.ToolError = fmt.Sprintf("non-deterministic replay of the root schedule: log %x vs %x, signature %q vs %q, points %d vs %d",
			x1.LogHash, x2.LogHash, v1.Signature, v2.Signature, len(x1.Points), len(x2.Points))
		return st
	}
	st.RootPoints = len(x1.Points)
	type item struct{ prefix []int }
	var stack []item
	childNo := 0
	account := func(x *vsched.Exec, v Verdict) {
		st.Execs++
		st.Transitions += x.Steps
		if len(x.Points) > st.MaxPoints {
			st.MaxPoints = len(x.Points)
			st.SampleSched = x.Choices()
		}
		if x.Threads > st.MaxThreads {
			st.MaxThreads = x.Threads
		}
		for h := range x.States {
			st.States[h] = struct{}{}
		}
		st.Outcomes[x.Outcome.String()]++
		st.Signatures[v.Signature]++
	}
	expand := func(x *vsched.Exec, from int, top bool) {
		ch := x.Choices()
		// push in reverse so that the earliest, simplest alternative is explored first
		var kids []item
		for i := from; i < len(x.Points); i++ {
			p := x.Points[i]
			pre, env := cost(x.Points, i, c.CostAll)
			for alt := 1; alt < p.N; alt++ {
				np, ne := pre, env
				if p.Env {
					ne++
				} else if p.RunningEnabled || c.CostAll {
					np++
				}
				if np > c.Bound || ne > c.EnvBound {
					continue
				}
				if top {
					k := childNo
					childNo++
					if k%c.NShards != c.Shard {
						continue
					}
				}
				pf := make([]int, i+1)
				copy(pf, ch[:i])
				pf[i] = alt
				kids = append(kids, item{pf})
			}
		}
		for i := len(kids) - 1; i >= 0; i-- {
			stack = append(stack, kids[i])
		}
	}
	handle := func(x *vsched.Exec, v Verdict, prefix []int) bool {
		if x.ReplayErr != "" {
			st.ToolError = "replay divergence: " + x.ReplayErr
			return true
		}
		if v.Violation == "" {
			return false
		}
		// re-run five times from the recorded choices; must reproduce every time
		ch := x.Choices()
		for k := 0; k < 5; k++ {
			xr, vr := c.run(ch, k == 0)
			if vr.Violation != v.Violation || xr.LogHash != x.LogHash {
				st.ToolError = fmt.Sprintf("violation %q did not reproduce on re-run %d (got %q)", v.Violation, k, vr.Violation)
				return true
			}
			if k == 0 {
				st.Found = &Found{Choices: ch, Violation: v.Violation, Outcome: xr.Outcome.String(), Blocked: xr.Blocked,
					PanicVal: xr.PanicVal, Stack: xr.PanicStack, Log: xr.Log}
			}
		}
		return true
	}
	if c.Shard == 0 {
		account(x1, v1)
	}
	if handle(x1, v1, nil) {
		return st
	}
	expand(x1, 0, true)
	for len(stack) > 0 {
		if c.MaxExecs > 0 && st.Execs >= c.MaxExecs {
			st.Capped = fmt.Sprintf("execution cap %d", c.MaxExecs)
			break
		}
		if !c.Deadline.IsZero() && st.Execs%64 == 0 && time.Now().After(c.Deadline) {
			st.Capped = "deadline"
			break
		}
		it := stack[len(stack)-1]
		stack = stack[:len(stack)-1]
		x, v := c.run(it.prefix, false)
		account(x, v)
		if handle(x, v, it.prefix) {
			return st
		}
		expand(x, len(it.prefix), false)
	}
	return st
}
