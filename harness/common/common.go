// Package common holds what every check shares: the run context, the evidence file,
// violation / known-finding reporting and a small parallel-for.
package common

import (
	"encoding/json"
	"fmt"
	"os"
	"path/filepath"
	"runtime"
	"sort"
	"strings"
	"sync"
	"time"
)

const Root = "/verif"

// Ctx is the context of one check run.
type Ctx struct {
	ID       string
	Tier     string // quick | thorough
	Seed     int64
	Work     string // scratch directory (removed by the driver)
	Start    time.Time
	Deadline time.Time // soft internal deadline: ends the run with exit 0, exhaustive:false
	Out      *os.File  // the real stdout (os.Stdout is redirected to /dev/null for the library's own prints)
	// ReplayKey (check --replay file): only the violation with this key is of interest; the run re-executes the check
	// at the recorded tier and seed, writes no evidence file and reports whether that violation shows again
	ReplayKey string

	mu         sync.Mutex
	violations []Violation
	known      []string
	notes      []string
	kf         *KnownFile
}

type Violation struct {
	Key    string      `json:"key"`
	What   string      `json:"what"`
	Replay interface{} `json:"replay,omitempty"`
	Path   string      `json:"-"`
}

// KnownFile is /verif/known_findings.json.
type KnownFile struct {
	Findings []struct {
		Property string `json:"property"`
		Key      string `json:"key"`
		What     string `json:"what"`
	} `json:"findings"`
	Fixed []string `json:"fixed"`
}

func (c *Ctx) Quick() bool { return c.Tier != "thorough" }

func (c *Ctx) Printf(f string, a ...interface{}) {
	c.mu.Lock()
	defer c.mu.Unlock()
	fmt.Fprintf(c.Out, f, a...)
}

func (c *Ctx) Note(f string, a ...interface{}) {
	s := fmt.Sprintf(f, a...)
	c.mu.Lock()
	c.notes = append(c.notes, s)
	c.mu.Unlock()
	c.Printf("note: %s\n", s)
}

func (c *Ctx) loadKnown() {
	if c.kf != nil {
		return
	}
	c.kf = &KnownFile{}
	b, err := os.ReadFile(filepath.Join(Root, "known_findings.json"))
	if err == nil {
		_ = json.Unmarshal(b, c.kf)
	}
}

// Expired reports whether the soft deadline has passed.
func (c *Ctx) Expired() bool { return !c.Deadline.IsZero() && time.Now().After(c.Deadline) }

// Report records a violation. key identifies the failing input / call site / history so that
// the known-findings file can list it; a violation whose key is listed is printed as KNOWN-FINDING.
// Only the first maxPerKeyClass violations are kept to bound output.
func (c *Ctx) Report(key, what string, replay interface{}) {
	c.mu.Lock()
	defer c.mu.Unlock()
	if c.ReplayKey != "" && key != c.ReplayKey {
		return
	}
	c.loadKnown()
	for _, f := range c.kf.Findings {
		if f.Property == c.ID && f.Key == key {
			line := fmt.Sprintf("KNOWN-FINDING: property=%s %s", c.ID, f.What)
			for _, k := range c.known {
				if k == line {
					return
				}
			}
			c.known = append(c.known, line)
			fmt.Fprintln(c.Out, line)
			return
		}
	}
	for _, v := range c.violations {
		if v.Key == key {
			return
		}
	}
	v := Violation{Key: key, What: what, Replay: replay}
	n := len(c.violations)
	dir := filepath.Join(Root, "replays")
	_ = os.MkdirAll(dir, 0o755)
	v.Path = filepath.Join(dir, fmt.Sprintf("%s-%d.json", c.ID, n))
	if c.ReplayKey != "" {
		v.Path = filepath.Join(dir, fmt.Sprintf("%s-replayed.json", c.ID))
	}
	b, _ := json.MarshalIndent(map[string]interface{}{"property": c.ID, "key": key, "what": what, "tier": c.Tier, "seed": c.Seed, "replay": replay}, "", " ")
	_ = os.WriteFile(v.Path, b, 0o644)
	c.violations = append(c.violations, v)
	if n < 20 {
		fmt.Fprintf(c.Out, "violation detail: %s: %s\n", key, what)
		fmt.Fprintf(c.Out, "VIOLATION property=%s replay=%s\n", c.ID, v.Path)
	}
}

func (c *Ctx) NViolations() int {
	c.mu.Lock()
	defer c.mu.Unlock()
	return len(c.violations)
}

// Coverage is the coverage object of the evidence file.
type Coverage map[string]interface{}

// Evidence mirrors EVIDENCE.schema.json.
type Evidence struct {
	PropertyID  string   `json:"property_id"`
	Tier        string   `json:"tier"`
	Seed        int64    `json:"seed"`
	Level       string   `json:"level"`
	Coverage    Coverage `json:"coverage"`
	Assumptions []string `json:"assumptions,omitempty"`
	WallS       float64  `json:"wall_s"`
	Violations  int      `json:"violations"`
	Known       []string `json:"known_findings,omitempty"`
	Notes       []string `json:"notes,omitempty"`
}

// Finish writes the evidence file and returns the process exit code.
func (c *Ctx) Finish(level string, cov Coverage, assumptions []string) int {
	ev := Evidence{PropertyID: c.ID, Tier: c.Tier, Seed: c.Seed, Level: level, Coverage: cov, Assumptions: assumptions,
		WallS: time.Since(c.Start).Seconds(), Violations: len(c.violations), Known: c.known, Notes: c.notes}
	if c.ReplayKey != "" {
		if len(c.violations) > 0 {
			fmt.Fprintf(c.Out, "%s replay: the recorded violation %q shows again\n", c.ID, c.ReplayKey)
			return 1
		}
		fmt.Fprintf(c.Out, "%s replay: the recorded violation %q does not show on the current tree\n", c.ID, c.ReplayKey)
		return 0
	}
	dir := filepath.Join(Root, "evidence")
	_ = os.MkdirAll(dir, 0o755)
	b, merr := json.MarshalIndent(ev, "", " ")
	if merr != nil {
		// a non-finite float somewhere in the free-form part: render that part as text
		for k, v := range ev.Coverage {
			if _, err := json.Marshal(v); err != nil {
				ev.Coverage[k] = fmt.Sprint(v)
			}
		}
		if _, isList := ev.Coverage["samples"].([]interface{}); !isList {
			ev.Coverage["samples"] = []interface{}{ev.Coverage["samples"]}
		}
		b, merr = json.MarshalIndent(ev, "", " ")
		if merr != nil {
			fmt.Fprintln(c.Out, "cannot encode evidence:", merr)
			return 2
		}
	}
	if err := os.WriteFile(filepath.Join(dir, c.ID+".json"), b, 0o644); err != nil {
		fmt.Fprintln(c.Out, "cannot write evidence:", err)
		return 2
	}
	ex, _ := cov["exhaustive"].(bool)
	fmt.Fprintf(c.Out, "%s %s: level=%s violations=%d known=%d exhaustive=%v wall=%.1fs\n", c.ID, c.Tier, level, len(c.violations), len(c.known), ex, ev.WallS)
	if len(c.violations) > 0 {
		return 1
	}
	return 0
}

// ParFor runs f(i) for i in [0,n) on all cores; f must be safe for concurrent use.
func ParFor(n int, f func(i int)) {
	w := runtime.NumCPU()
	if w > n {
		w = n
	}
	if w <= 1 {
		for i := 0; i < n; i++ {
			f(i)
		}
		return
	}
	var wg sync.WaitGroup
	var mu sync.Mutex
	next := 0
	for k := 0; k < w; k++ {
		wg.Add(1)
		go func() {
			defer wg.Done()
			for {
				mu.Lock()
				i := next
				next++
				mu.Unlock()
				if i >= n {
					return
				}
				f(i)
			}
		}()
	}
	wg.Wait()
}

// Counter is a concurrent multiset of strings (for "distinct non-trivial cases").
type Counter struct {
	mu sync.Mutex
	m  map[string]int
}

func NewCounter() *Counter { return &Counter{m: map[string]int{}} }

func (c *Counter) Add(k string) {
	c.mu.Lock()
	c.m[k]++
	c.mu.Unlock()
}

func (c *Counter) Len() int {
	c.mu.Lock()
	defer c.mu.Unlock()
	return len(c.m)
}

func (c *Counter) Map() map[string]int {
	c.mu.Lock()
	defer c.mu.Unlock()
	out := map[string]int{}
	for k, v := range c.m {
		out[k] = v
	}
	return out
}

func (c *Counter) Top(n int) []string {
	m := c.Map()
	var ks []string
	for k := range m {
		ks = append(ks, k)
	}
	sort.Strings(ks)
	if len(ks) > n {
		ks = ks[:n]
	}
	return ks
}

// BitString renders bits as 0/1 text.
func BitString(b []bool) string {
	var sb strings.Builder
	for _, x := range b {
		if x {
			sb.WriteByte('1')
		} else {
			sb.WriteByte('0')
		}
	}
	return sb.String()
}

// ParseBits is the inverse of BitString.
func ParseBits(s string) []bool {
	out := make([]bool, 0, len(s))
	for _, ch := range s {
		out = append(out, ch == '1')
	}
	return out
}

// Catch runs f and returns the panic value, if any.
func Catch(f func()) (pv interface{}) {
	defer func() { pv = recover() }()
	f()
	return nil
}
