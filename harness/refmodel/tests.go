package refmodel

import (
	"math"
	"math/big"
	"math/cmplx"
	"sync"
)

// Bits of a byte string, most significant bit first.
func Bits(data []byte) []bool {
	out := make([]bool, 0, 8*len(data))
	for _, b := range data {
		for k := 7; k >= 0; k-- {
			out = append(out, (b>>uint(k))&1 == 1)
		}
	}
	return out
}

func one(b bool) int {
	if b {
		return 1
	}
	return 0
}

// normal two-sided pair from the standardised statistic V: P = erfc(|V|/sqrt2), Q = erfc(V/sqrt2)/2
func normalPQ(v float64) (float64, float64) {
	return math.Erfc(math.Abs(v) / math.Sqrt2), math.Erfc(v/math.Sqrt2) / 2
}

// ---------- 1 monobit ----------

func Monobit(e []bool) (p, q float64) {
	s := 0
	for _, b := range e {
		s += 2*one(b) - 1
	}
	return normalPQ(float64(s) / math.Sqrt(float64(len(e))))
}

// ---------- 2 frequency within a block ----------

// AutoM is the block length the standard prescribes for a sequence of n bits.
func AutoM(n int) int {
	switch {
	case n < 1000:
		return 10
	case n < 10000:
		return 100
	case n < 1000000:
		return 1000
	case n < 100000000:
		return 10000
	}
	return 1000000
}

func BlockFreq(e []bool, m int) (p, q float64) {
	N := len(e) / m
	v := 0.0
	for i := 0; i < N; i++ {
		blk := e[i*m : (i+1)*m]
		ones := 0
		for _, b := range blk {
			ones += one(b)
		}
		pi := float64(ones) / float64(m)
		v += (pi - 0.5) * (pi - 0.5)
	}
	v *= 4 * float64(m)
	p = Q2(N, v/2)
	return p, p
}

// ---------- 3 poker ----------

func Poker(e []bool, m int) (p, q float64) {
	N := len(e) / m
	cnt := make([]int, 1<<uint(m))
	for i := 0; i < N; i++ {
		cnt[pattern(e[i*m:(i+1)*m])]++
	}
	sum := 0.0
	for _, c := range cnt {
		sum += float64(c) * float64(c)
	}
	v := math.Pow(2, float64(m))/float64(N)*sum - float64(N)
	p = Q2((1<<uint(m))-1, v/2)
	return p, p
}

func pattern(b []bool) int {
	v := 0
	for _, x := range b {
		v = v*2 + one(x)
	}
	return v
}

// ---------- 4 overlapping subsequence (serial) ----------

// sumSq is the sum of the squared counts of the overlapping m-bit patterns of the cyclically
// extended sequence (n^2 for m = 0).
func sumSq(e []bool, m int) int64 {
	n := len(e)
	if m <= 0 {
		return int64(n) * int64(n)
	}
	ext := append(append([]bool{}, e...), e[:m-1]...)
	cnt := make([]int64, 1<<uint(m))
	for i := 0; i < n; i++ {
		cnt[pattern(ext[i:i+m])]++
	}
	var s int64
	for _, c := range cnt {
		s += c * c
	}
	return s
}

// OverlappingStats returns the two statistics of the overlapping-subsequence test, evaluated
// exactly: psi2_m = (2^m/n) S_m - n, so the -n terms cancel in both differences and
//
//	del  psi2 = (2^m S_m - 2^(m-1) S_(m-1)) / n
//	del2 psi2 = (2^m S_m - 2 * 2^(m-1) S_(m-1) + 2^(m-2) S_(m-2)) / n      (S_0 = n^2, 2^(m-2) S_(m-2) for m=2 is n^2)
//
// are integer numerators over n (one rounding). delta bounds the rounding noise of a direct
// floating-point evaluation of the same differences (cancellation of terms of size 2^m S_m / n).
func OverlappingStats(e []bool, m int) (d1, d2, delta float64) {
	n := int64(len(e))
	a := sumSq(e, m) << uint(m)
	b := sumSq(e, m-1) << uint(m-1)
	var c int64
	if m >= 2 {
		c = sumSq(e, m-2) << uint(m-2)
	}
	d1 = float64(a-b) / float64(n)
	d2 = float64(a-2*b+c) / float64(n)
	delta = 2e-15 * (float64(a) + 2*float64(b) + float64(c)) / float64(n)
	return
}

func Overlapping(e []bool, m int) (p1, p2, q1, q2 float64) {
	d1, d2, _ := OverlappingStats(e, m)
	// shapes 2^(m-2) and 2^(m-3)
	p1 = Q2(1<<uint(m-1), d1/2) // twoA = 2 * 2^(m-2)
	p2 = Q2(1<<uint(m-2), d2/2) // twoA = 2 * 2^(m-3)
	return p1, p2, p1, p2
}

// OverlappingSlack is how far P1 and P2 may legitimately move when the statistics are evaluated
// in floating point (the shape-1/2 tail has an infinite slope at 0).
func OverlappingSlack(e []bool, m int) []float64 {
	d1, d2, delta := OverlappingStats(e, m)
	sl := func(twoA int, d float64) float64 {
		lo := d/2 - delta
		if lo < 0 {
			lo = 0
		}
		return math.Abs(Q2(twoA, lo) - Q2(twoA, d/2+delta))
	}
	s1, s2 := sl(1<<uint(m-1), d1), sl(1<<uint(m-2), d2)
	return []float64{s1, s2, s1, s2}
}

// ---------- 5 runs ----------

func Runs(e []bool) (p, q float64) {
	n := len(e)
	ones := 0
	for _, b := range e {
		ones += one(b)
	}
	pi := float64(ones) / float64(n)
	vobs := 1
	for i := 0; i+1 < n; i++ {
		if e[i] != e[i+1] {
			vobs++
		}
	}
	den := 2 * math.Sqrt(float64(n)) * pi * (1 - pi)
	num := float64(vobs) - 2*float64(n)*pi*(1-pi)
	if den == 0 {
		// constant sequence: the statistic diverges (+inf), both tails vanish
		return 0, 0
	}
	return normalPQ(num / den)
}

// ---------- 6 runs distribution ----------

// RunLengths splits a sequence into (symbol, length) runs.
func RunLengths(e []bool) (sym []bool, ln []int) {
	for i := 0; i < len(e); {
		j := i
		for j < len(e) && e[j] == e[i] {
			j++
		}
		sym = append(sym, e[i])
		ln = append(ln, j-i)
		i = j
	}
	return
}

// RunsDistK is the cut-off: the largest i with (n-i+3)/2^(i+2) >= 5.
func RunsDistK(n int) int {
	k := 0
	for i := 1; i < 60; i++ {
		if float64(n-i+3)/math.Pow(2, float64(i+2)) >= 5 {
			k = i
		}
	}
	return k
}

func RunsDist(e []bool) (p, q float64) {
	n := len(e)
	k := RunsDistK(n)
	b := make([]float64, k+1)
	g := make([]float64, k+1)
	sym, ln := RunLengths(e)
	for i := range sym {
		l := ln[i]
		if l > k {
			l = k
		}
		if sym[i] {
			b[l]++
		} else {
			g[l]++
		}
	}
	T := 0.0
	for i := 1; i <= k; i++ {
		T += b[i] + g[i]
	}
	v := 0.0
	for i := 1; i <= k; i++ {
		ei := T / math.Pow(2, float64(i+1))
		if i == k {
			ei = T / math.Pow(2, float64(k))
		}
		v += (b[i]-ei)*(b[i]-ei)/ei + (g[i]-ei)*(g[i]-ei)/ei
	}
	p = Q2(2*(k-1), v/2)
	return p, p
}

// ---------- 7 longest run in a block ----------

// LongestRunRegime gives block length m, lowest class value and K for n.
func LongestRunRegime(n int) (m, low, K, digits int) {
	switch {
	case n < 6272:
		return 8, 1, 3, 4
	case n < 750000:
		return 128, 4, 5, 4
	}
	return 10000, 10, 6, 6
}

var (
	lrMu    sync.Mutex
	lrCache = map[int][]float64{}
)

// noRunLonger counts the m-bit strings whose longest run of ones is <= L.
func noRunLonger(m, L int) *big.Int {
	// a(i) = number of strings of length i without L+1 consecutive ones
	a := make([]*big.Int, m+1)
	for i := 0; i <= m; i++ {
		if i <= L {
			a[i] = new(big.Int).Lsh(big.NewInt(1), uint(i))
			continue
		}
		s := new(big.Int)
		for j := 1; j <= L+1; j++ {
			s.Add(s, a[i-j])
		}
		a[i] = s
	}
	return a[m]
}

// LongestRunProbs returns the exact class probabilities rounded to the printed precision.
func LongestRunProbs(m, low, K, digits int) []float64 {
	lrMu.Lock()
	defer lrMu.Unlock()
	if v, ok := lrCache[m]; ok {
		return v
	}
	total := new(big.Float).SetPrec(prec).SetInt(new(big.Int).Lsh(big.NewInt(1), uint(m)))
	cdf := func(L int) *big.Float { // P(longest <= L)
		return new(big.Float).SetPrec(prec).Quo(new(big.Float).SetPrec(prec).SetInt(noRunLonger(m, L)), total)
	}
	probs := make([]float64, K+1)
	prev := new(big.Float).SetPrec(prec)
	scale := math.Pow(10, float64(digits))
	for c := 0; c <= K; c++ {
		var cur *big.Float
		if c == K {
			cur = new(big.Float).SetPrec(prec).SetInt64(1)
		} else {
			cur = cdf(low + c)
		}
		d := new(big.Float).SetPrec(prec).Sub(cur, prev)
		f, _ := d.Float64()
		probs[c] = math.Round(f*scale) / scale
		prev = cur
	}
	lrCache[m] = probs
	return probs
}

func LongestRun(e []bool, ones bool) (p, q float64) {
	n := len(e)
	m, low, K, digits := LongestRunRegime(n)
	pi := LongestRunProbs(m, low, K, digits)
	N := n / m
	v := make([]float64, K+1)
	for i := 0; i < N; i++ {
		blk := e[i*m : (i+1)*m]
		best, curr := 0, 0
		for _, b := range blk {
			if b == ones {
				curr++
				if curr > best {
					best = curr
				}
			} else {
				curr = 0
			}
		}
		c := best - low
		if c < 0 {
			c = 0
		}
		if c > K {
			c = K
		}
		v[c]++
	}
	chi := 0.0
	for c := 0; c <= K; c++ {
		ex := float64(N) * pi[c]
		chi += (v[c] - ex) * (v[c] - ex) / ex
	}
	p = Q2(K, chi/2)
	return p, p
}

// ---------- 8 binary derivative ----------

func BinaryDerivative(e []bool, k int) (p, q float64) {
	cur := append([]bool{}, e...)
	for r := 0; r < k; r++ {
		next := make([]bool, len(cur)-1)
		for i := range next {
			next[i] = cur[i] != cur[i+1]
		}
		cur = next
	}
	s := 0
	for _, b := range cur {
		s += 2*one(b) - 1
	}
	return normalPQ(float64(s) / math.Sqrt(float64(len(cur))))
}

// ---------- 9 autocorrelation ----------

func Autocorrelation(e []bool, d int) (p, q float64) {
	n := len(e)
	a := 0
	for i := 0; i+d < n; i++ {
		if e[i] != e[i+d] {
			a++
		}
	}
	nd := float64(n - d)
	return normalPQ(2 * (float64(a) - nd/2) / math.Sqrt(nd))
}

// ---------- 10 matrix rank ----------

// Rank32 computes the GF(2) rank of 32 row words.
func Rank32(rows []uint32) int {
	r := append([]uint32{}, rows...)
	rank := 0
	for bit := 31; bit >= 0; bit-- {
		piv := -1
		for i := rank; i < len(r); i++ {
			if r[i]>>uint(bit)&1 == 1 {
				piv = i
				break
			}
		}
		if piv < 0 {
			continue
		}
		r[rank], r[piv] = r[piv], r[rank]
		for i := 0; i < len(r); i++ {
			if i != rank && r[i]>>uint(bit)&1 == 1 {
				r[i] ^= r[rank]
			}
		}
		rank++
	}
	return rank
}

func MatrixRank(e []bool) (p, q float64) {
	N := len(e) / 1024
	var fm, fm1, fr float64
	for i := 0; i < N; i++ {
		blk := e[i*1024 : (i+1)*1024]
		rows := make([]uint32, 32)
		for r := 0; r < 32; r++ {
			rows[r] = uint32(pattern(blk[r*32 : (r+1)*32]))
		}
		switch Rank32(rows) {
		case 32:
			fm++
		case 31:
			fm1++
		default:
			fr++
		}
	}
	n := float64(N)
	v := (fm-0.2888*n)*(fm-0.2888*n)/(0.2888*n) + (fm1-0.5776*n)*(fm1-0.5776*n)/(0.5776*n) + (fr-0.1336*n)*(fr-0.1336*n)/(0.1336*n)
	p = Q2(2, v/2)
	return p, p
}

// ---------- 11 cumulative sums ----------

func Cusum(e []bool, forward bool) (p, q float64) {
	n := len(e)
	s, z := 0, 0
	for i := 0; i < n; i++ {
		b := e[i]
		if !forward {
			b = e[n-1-i]
		}
		s += 2*one(b) - 1
		if s > z {
			z = s
		}
		if -s > z {
			z = -s
		}
	}
	fn, fz := float64(n), float64(z)
	sq := math.Sqrt(fn)
	// all integers k with (-n/z+1)/4 <= k <= (n/z-1)/4, over the reals
	lo1 := int(math.Ceil((-fn/fz + 1) / 4))
	hi := int(math.Floor((fn/fz - 1) / 4))
	lo2 := int(math.Ceil((-fn/fz - 3) / 4))
	p = 1
	for k := lo1; k <= hi; k++ {
		p -= Phi(float64(4*k+1)*fz/sq) - Phi(float64(4*k-1)*fz/sq)
	}
	for k := lo2; k <= hi; k++ {
		p += Phi(float64(4*k+3)*fz/sq) - Phi(float64(4*k+1)*fz/sq)
	}
	return p, p
}

// ---------- 12 approximate entropy ----------

func phi(e []bool, m int) float64 {
	n := len(e)
	ext := append(append([]bool{}, e...), e[:m]...)
	cnt := make([]int, 1<<uint(m))
	for i := 0; i < n; i++ {
		cnt[pattern(ext[i:i+m])]++
	}
	s := 0.0
	for _, c := range cnt {
		if c == 0 {
			continue
		}
		pi := float64(c) / float64(n)
		s += pi * math.Log(pi)
	}
	return s
}

func ApEn(e []bool, m int) (p, q float64) {
	n := float64(len(e))
	apen := phi(e, m) - phi(e, m+1)
	v := 2 * n * (math.Ln2 - apen)
	p = Q2(1<<uint(m), v/2) // twoA = 2 * 2^(m-1)
	return p, p
}

// ---------- 13 linear complexity ----------

// BM is the Berlekamp-Massey shortest-LFSR length of a bit block (bitset polynomials).
func BM(s []bool) int {
	n := len(s)
	words := n/64 + 2
	c := make([]uint64, words)
	b := make([]uint64, words)
	c[0], b[0] = 1, 1
	L, m := 0, -1
	get := func(p []uint64, i int) uint64 { return p[i/64] >> uint(i%64) & 1 }
	for N := 0; N < n; N++ {
		d := uint64(one(s[N]))
		for i := 1; i <= L; i++ {
			d ^= get(c, i) & uint64(one(s[N-i]))
		}
		if d == 1 {
			t := append([]uint64{}, c...)
			sh := N - m
			for i := 0; i+sh <= n; i++ {
				if get(b, i) == 1 {
					c[(i+sh)/64] ^= 1 << uint((i+sh)%64)
				}
			}
			if 2*L <= N {
				L = N + 1 - L
				m = N
				b = t
			}
		}
	}
	return L
}

// BruteLC finds the shortest LFSR by exhaustive search (for cross-checking BM on short blocks).
func BruteLC(s []bool) int {
	n := len(s)
	allZero := true
	for _, b := range s {
		if b {
			allZero = false
		}
	}
	if allZero {
		return 0
	}
	for L := 1; L < n; L++ {
		for taps := 0; taps < 1<<uint(L); taps++ {
			ok := true
			for i := L; i < n && ok; i++ {
				v := false
				for j := 1; j <= L; j++ {
					if taps>>uint(j-1)&1 == 1 && s[i-j] {
						v = !v
					}
				}
				if v != s[i] {
					ok = false
				}
			}
			if ok {
				return L
			}
		}
	}
	return n
}

func LinearComplexity(e []bool, m int) (p, q float64) {
	N := len(e) / m
	sign := 1.0
	if m%2 == 1 {
		sign = -1.0
	}
	mu := float64(m)/2 + (9-sign)/36 - (float64(m)/3+2.0/9)/math.Pow(2, float64(m))
	pi := []float64{0.010417, 0.03125, 0.125, 0.5, 0.25, 0.0625, 0.020833}
	v := make([]float64, 7)
	for i := 0; i < N; i++ {
		L := BM(e[i*m : (i+1)*m])
		t := sign*(float64(L)-mu) + 2.0/9
		switch {
		case t <= -2.5:
			v[0]++
		case t <= -1.5:
			v[1]++
		case t <= -0.5:
			v[2]++
		case t <= 0.5:
			v[3]++
		case t <= 1.5:
			v[4]++
		case t <= 2.5:
			v[5]++
		default:
			v[6]++
		}
	}
	chi := 0.0
	for i := range v {
		ex := float64(N) * pi[i]
		chi += (v[i] - ex) * (v[i] - ex) / ex
	}
	p = Q2(6, chi/2)
	return p, p
}

// ---------- 14 Maurer ----------

func Maurer(e []bool) (p, q float64) {
	const L, Qn = 7, 1280
	blocks := len(e) / L
	K := blocks - Qn
	last := map[int]int{}
	blk := func(i int) int { return pattern(e[(i-1)*L : i*L]) } // 1-based
	for i := 1; i <= Qn; i++ {
		last[blk(i)] = i
	}
	sum := 0.0
	for i := Qn + 1; i <= Qn+K; i++ {
		b := blk(i)
		sum += math.Log2(float64(i - last[b]))
		last[b] = i
	}
	fn := sum / float64(K)
	c := 0.7 - 0.8/float64(L) + (4+32/float64(L))*math.Pow(float64(K), -3/float64(L))/15
	sigma := c * math.Sqrt(3.125/float64(K))
	return normalPQ((fn - 6.1962507) / sigma)
}

// ---------- 15 discrete Fourier transform ----------

// NaiveDFT computes the spectrum by definition.
func NaiveDFT(x []complex128) []complex128 {
	N := len(x)
	out := make([]complex128, N)
	for k := 0; k < N; k++ {
		var s complex128
		for j := 0; j < N; j++ {
			ang := -2 * math.Pi * float64((j*k)%N) / float64(N)
			s += x[j] * cmplx.Rect(1, ang)
		}
		out[k] = s
	}
	return out
}

// RecFFT is a plain recursive radix-2 FFT (validated against NaiveDFT by the checks before use).
func RecFFT(x []complex128) []complex128 {
	N := len(x)
	if N == 1 {
		return []complex128{x[0]}
	}
	ev := make([]complex128, N/2)
	od := make([]complex128, N/2)
	for i := 0; i < N/2; i++ {
		ev[i], od[i] = x[2*i], x[2*i+1]
	}
	E, O := RecFFT(ev), RecFFT(od)
	out := make([]complex128, N)
	for k := 0; k < N/2; k++ {
		w := cmplx.Rect(1, -2*math.Pi*float64(k)/float64(N))
		out[k] = E[k] + w*O[k]
		out[k+N/2] = E[k] - w*O[k]
	}
	return out
}

// DFTCounts returns the admissible range [lo,hi] of N1 (magnitudes strictly below the threshold,
// with the threshold moved by a relative 1e-9 either way) for the zero-extended +-1 sequence.
func DFTCounts(e []bool) (lo, hi int) {
	n := len(e)
	N := 2
	for N < n {
		N *= 2
	}
	x := make([]complex128, N)
	for i, b := range e {
		x[i] = complex(float64(2*one(b)-1), 0)
	}
	var X []complex128
	if N <= 64 {
		X = NaiveDFT(x)
	} else {
		X = RecFFT(x)
	}
	T := math.Sqrt(2.995732274 * float64(n))
	for i := 0; i < n/2-1; i++ {
		a := cmplx.Abs(X[i])
		if a < T*(1-1e-9) {
			lo++
		}
		if a < T*(1+1e-9) {
			hi++
		}
	}
	return
}

// DFTCountsQuarter is DFTCounts for a sequence whose bin N/4 is decided exactly by the caller: that bin equals
// (A0-A2) - i(A1-A3), sums of the +-1 values over the residue classes of the index mod 4, so its squared magnitude
// is an integer that is compared with 2.995732274 n in exact arithmetic. quarterBelow says whether it counts.
// The other bins are counted as in DFTCounts; ok is false if one of them lies within a relative 1e-9 of the
// threshold (the input is then not used).
func DFTCountsQuarter(e []bool, quarterBelow bool) (n1 int, ok bool) {
	n := len(e)
	N := 2
	for N < n {
		N *= 2
	}
	x := make([]complex128, N)
	for i, b := range e {
		x[i] = complex(float64(2*one(b)-1), 0)
	}
	X := RecFFT(x)
	T := math.Sqrt(2.995732274 * float64(n))
	ok = true
	for i := 0; i < n/2-1; i++ {
		if i == N/4 {
			if quarterBelow {
				n1++
			}
			continue
		}
		a := cmplx.Abs(X[i])
		lo, hi := a < T*(1-1e-9), a < T*(1+1e-9)
		if lo != hi {
			ok = false
		}
		if lo {
			n1++
		}
	}
	return
}

// DFTFromCount maps a count N1 to (P, Q).
func DFTFromCount(n, n1 int) (p, q float64) {
	n0 := 0.95 * float64(n) / 2
	v := (float64(n1) - n0) / math.Sqrt(0.95*0.05*float64(n)/3.8)
	return normalPQ(v)
}

// Pack is the inverse of Bits for lengths that are multiples of 8 (most significant bit first).
func Pack(bits []bool) []byte {
	out := make([]byte, len(bits)/8)
	for i := range out {
		for j := 0; j < 8; j++ {
			if bits[8*i+j] {
				out[i] |= 0x80 >> uint(j)
			}
		}
	}
	return out
}
