// Package refmodel is an independent, deliberately plain implementation of GM/T 0005-2021
// used as the oracle of the bounded-exhaustive input checks. It shares no code with /repo.
package refmodel

import (
	"math"
	"math/big"
)

// Q2 returns the regularized upper incomplete gamma function Q(a, x) for a = twoA/2
// (an integer or a half-integer), in float64, from the finite closed forms
//
//	Q(k,   x) = e^-x  sum_{j<k} x^j / j!
//	Q(k+½, x) = erfc(sqrt x) + e^-x sum_{j<k} x^(j+½) / Gamma(j+3/2)
func Q2(twoA int, x float64) float64 {
	if twoA <= 0 {
		panic("refmodel.Q2: shape must be positive")
	}
	if math.IsNaN(x) {
		return math.NaN()
	}
	if x <= 0 {
		return 1
	}
	if math.IsInf(x, 1) {
		return 0
	}
	lx := math.Log(x)
	sum := 0.0
	if twoA%2 == 0 {
		k := twoA / 2
		for j := 0; j < k; j++ {
			lg, _ := math.Lgamma(float64(j) + 1)
			sum += math.Exp(-x + float64(j)*lx - lg)
		}
		return clamp01(sum)
	}
	k := (twoA - 1) / 2
	for j := 0; j < k; j++ {
		lg, _ := math.Lgamma(float64(j) + 1.5)
		sum += math.Exp(-x + (float64(j)+0.5)*lx - lg)
	}
	return clamp01(math.Erfc(math.Sqrt(x)) + sum)
}

func clamp01(v float64) float64 {
	if v > 1 {
		return 1
	}
	if v < 0 {
		return 0
	}
	return v
}

// QA is Q2 for a float shape that must be an integer or half-integer.
func QA(a, x float64) float64 {
	t := math.Round(2 * a)
	if math.Abs(t-2*a) > 1e-9 {
		panic("refmodel.QA: shape is not a multiple of 1/2")
	}
	return Q2(int(t), x)
}

const prec = 192

var (
	bigLn2 = mustBig("0.693147180559945309417232121458176568075500134360255254120680009493393621969694715605863326996418687542147932")
	bigPi  = mustBig("3.14159265358979323846264338327950288419716939937510582097494459230781640628620899862803482534211706798214808651")
)

func mustBig(s string) *big.Float {
	f, _, err := big.ParseFloat(s, 10, prec, big.ToNearestEven)
	if err != nil {
		panic(err)
	}
	return f
}

func newF() *big.Float { return new(big.Float).SetPrec(prec) }

// bigExpNeg returns e^-x for x >= 0 in high precision.
func bigExpNeg(x *big.Float) *big.Float {
	// x = n ln2 + r, 0 <= r < ln2 ; e^-x = 2^-n e^-r
	q := newF().Quo(x, bigLn2)
	nInt, _ := q.Int(nil)
	n := nInt.Int64()
	r := newF().Sub(x, newF().Mul(newF().SetInt(nInt), bigLn2))
	// e^-r by Taylor after halving r 8 times
	const halv = 8
	r.SetMantExp(r, -halv)
	term := newF().SetInt64(1)
	sum := newF().SetInt64(1)
	for i := 1; i < 200; i++ {
		term.Mul(term, r)
		term.Quo(term, newF().SetInt64(int64(i)))
		term.Neg(term)
		sum.Add(sum, term)
		if term.Sign() == 0 || term.MantExp(nil) < sum.MantExp(nil)-prec-8 {
			break
		}
	}
	for i := 0; i < halv; i++ {
		sum.Mul(sum, sum)
	}
	return sum.SetMantExp(sum, int(-n))
}

// QBig evaluates Q(twoA/2, x) in 192-bit arithmetic (erfc of the half-integer case in float64,
// whose absolute error is below 2e-16).
func QBig(twoA int, x float64) float64 {
	if x <= 0 {
		return 1
	}
	if math.IsInf(x, 1) {
		return 0
	}
	bx := newF().SetFloat64(x)
	ex := bigExpNeg(bx)
	sum := newF()
	var term *big.Float
	var k int
	erfc := 0.0
	div := newF()
	if twoA%2 == 0 {
		k = twoA / 2
		term = newF().SetInt64(1)
		for j := 0; j < k; j++ {
			sum.Add(sum, term)
			term.Mul(term, bx)
			term.Quo(term, div.SetInt64(int64(j+1)))
			if negligible(term, sum, float64(j+1), x) {
				break
			}
		}
	} else {
		k = (twoA - 1) / 2
		sx := newF().Sqrt(bx)
		sxf, _ := sx.Float64()
		erfc = math.Erfc(sxf)
		// term_0 = x^(1/2)/Gamma(3/2) = 2 sqrt(x/pi)
		term = newF().Sqrt(newF().Quo(bx, bigPi))
		term.Mul(term, newF().SetInt64(2))
		bx2 := newF().Mul(bx, newF().SetInt64(2))
		for j := 0; j < k; j++ {
			sum.Add(sum, term)
			// multiply by x / (j + 3/2) = 2x / (2j+3)
			term.Mul(term, bx2)
			term.Quo(term, div.SetInt64(int64(2*j+3)))
			if negligible(term, sum, float64(j)+1.5, x) {
				break
			}
		}
	}
	sum.Mul(sum, ex)
	v, _ := sum.Float64()
	return clamp01(v + erfc)
}

// negligible: the terms decrease once the index exceeds x; from there on a term more than prec+16 bits
// below the sum cannot change it (and adding it would make math/big align mantissas across the gap).
func negligible(term, sum *big.Float, idx, x float64) bool {
	if idx <= x+1 || sum.Sign() == 0 {
		return false
	}
	return term.Sign() == 0 || term.MantExp(nil) < sum.MantExp(nil)-prec-16
}

// Phi is the standard normal distribution function.
func Phi(x float64) float64 { return 0.5 * math.Erfc(-x/math.Sqrt2) }
