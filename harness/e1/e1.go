// Package e1 is the glue of the controlled-scheduler engine: it instruments packages of /repo's
// working tree, builds the instrumented runner with `go build -overlay`, fans exploration tasks
// out over sub-processes (the scheduler is process-global by construction) and merges their results.
package e1

import (
	"bytes"
	"encoding/binary"
	"encoding/json"
	"fmt"
	"os"
	"os/exec"
	"path/filepath"
	"runtime"
	"sort"
	"strings"
	"sync"
	"time"

	"verif/common"
	"verif/explore"
	"verif/vinstr"
)

// Task is one exploration handed to a sub-process.
type Task struct {
	Check   string          `json:"check"`
	Name    string          `json:"name"`
	Params  json.RawMessage `json:"params"`
	Bound   int             `json:"bound"`
	Policy  int             `json:"policy"`
	W       int             `json:"w"`
	// TrackStates: count the distinct states of this exploration separately (saturation ladders)
	TrackStates bool `json:"track_states,omitempty"`
	Shard   int             `json:"shard"`
	NShards int             `json:"nshards"`
	Budget  float64         `json:"budget_s"`
	MaxExec int             `json:"max_exec"`
	CostAll bool            `json:"cost_all"`
}

// Result of one task.
type Result struct {
	Task        Task           `json:"task"`
	Execs       int            `json:"execs"`
	Transitions int            `json:"transitions"`
	NStates     int            `json:"nstates"`
	MaxPoints   int            `json:"max_points"`
	MaxThreads  int            `json:"max_threads"`
	RootPoints  int            `json:"root_points"`
	Outcomes    map[string]int `json:"outcomes"`
	Signatures  map[string]int `json:"signatures"`
	Capped      string         `json:"capped"`
	ToolError   string         `json:"tool_error"`
	Found       *explore.Found `json:"found"`
	Sample      []int          `json:"sample_schedule"`
	WallS       float64        `json:"wall_s"`
	Extra       map[string]int `json:"extra,omitempty"`
	statesFile  string
}

// FromStats converts explorer statistics.
func FromStats(t Task, st *explore.Stats, wall time.Duration) *Result {
	r := &Result{Task: t, Execs: st.Execs, Transitions: st.Transitions, NStates: len(st.States), MaxPoints: st.MaxPoints, MaxThreads: st.MaxThreads,
		RootPoints: st.RootPoints, Outcomes: st.Outcomes, Signatures: st.Signatures, Capped: st.Capped, ToolError: st.ToolError, Found: st.Found, WallS: wall.Seconds()}
	if len(st.SampleSched) > 64 {
		r.Sample = st.SampleSched[:64]
	} else {
		r.Sample = st.SampleSched
	}
	return r
}

// WriteResult is called by the sub-process.
func WriteResult(path string, r *Result, states map[uint64]struct{}) error {
	b, _ := json.Marshal(r)
	if err := os.WriteFile(path, b, 0o644); err != nil {
		return err
	}
	var buf bytes.Buffer
	var w [8]byte
	n := 0
	for h := range states {
		if n >= 2000000 {
			break
		}
		binary.LittleEndian.PutUint64(w[:], h)
		buf.Write(w[:])
		n++
	}
	return os.WriteFile(path+".states", buf.Bytes(), 0o644)
}

// Build instruments the given packages of /repo and builds the runner with the overlay.
type PkgSpec struct {
	Dir        string
	Files      []string
	RenameMain string
	FileOps    bool
	Touch      bool
	Extra      map[string]string
}

type BuildInfo struct {
	Bin       string
	Counts    map[string]int
	Unsupport []string
	TypeErrs  []string
	PkgVars   map[string][]string
	Overlay   string
}

// Build returns the path of the instrumented binary of mainPkg (a package path inside the harness
// module or inside /repo).
func Build(ctx *common.Ctx, tag string, specs []PkgSpec, mainPkg string, race bool, extraTags ...string) (*BuildInfo, error) {
	dir := filepath.Join(ctx.Work, "instr-"+tag)
	info := &BuildInfo{Counts: map[string]int{}, PkgVars: map[string][]string{}}
	ov := struct{ Replace map[string]string }{map[string]string{}}
	for i, sp := range specs {
		res, err := vinstr.Instrument(vinstr.Options{Dir: sp.Dir, Files: sp.Files, OutDir: filepath.Join(dir, fmt.Sprint("p", i)), RenameMain: sp.RenameMain, FileOps: sp.FileOps, TouchVars: sp.Touch, ExtraFiles: sp.Extra})
		if err != nil {
			return nil, fmt.Errorf("instrumenting %s: %v", sp.Dir, err)
		}
		for k, v := range res.Overlay {
			ov.Replace[k] = v
		}
		for k, v := range res.Counts {
			info.Counts[k] += v
		}
		info.Unsupport = append(info.Unsupport, res.Unsupport...)
		info.TypeErrs = append(info.TypeErrs, res.TypeErrs...)
		info.PkgVars[sp.Dir] = res.PkgVars
	}
	info.Overlay = filepath.Join(dir, "overlay.json")
	b, _ := json.MarshalIndent(ov, "", " ")
	if err := os.WriteFile(info.Overlay, b, 0o644); err != nil {
		return nil, err
	}
	info.Bin = filepath.Join(dir, "bin")
	args := []string{"build", "-tags", strings.Join(append([]string{"verif_instr"}, extraTags...), ","), "-overlay", info.Overlay, "-o", info.Bin}
	if race {
		args = append(args, "-race")
	}
	args = append(args, mainPkg)
	cmd := exec.Command("go", args...)
	cmd.Dir = filepath.Join(common.Root, "harness")
	out, err := cmd.CombinedOutput()
	if err != nil {
		return info, fmt.Errorf("go %s: %v\n%s", strings.Join(args, " "), err, out)
	}
	return info, nil
}

// BuildPlain builds mainPkg without instrumentation (optionally with -race) into the work directory.
func BuildPlain(ctx *common.Ctx, name, mainPkg string, race bool, extraArgs ...string) (string, error) {
	bin := filepath.Join(ctx.Work, name)
	args := []string{"build", "-o", bin}
	if race {
		args = append(args, "-race")
	}
	args = append(args, extraArgs...)
	args = append(args, mainPkg)
	cmd := exec.Command("go", args...)
	cmd.Dir = filepath.Join(common.Root, "harness")
	out, err := cmd.CombinedOutput()
	if err != nil {
		return "", fmt.Errorf("go %s: %v\n%s", strings.Join(args, " "), err, out)
	}
	return bin, nil
}

// Merged is the aggregate over all tasks.
type Merged struct {
	Results     []*Result
	Execs       int
	Transitions int
	States      map[uint64]struct{}
	StatesLower bool
	Outcomes    map[string]int
	Signatures  map[string]int
	Capped      []string
	ToolErrors  []string
	MaxPoints   int
	MaxThreads  int
	// StatesPerTask: distinct scheduler-visible states per exploration (shards united), for saturation statements
	StatesPerTask map[string]int
	perTask       map[string]map[uint64]struct{}
}

// RunTasks executes tasks in sub-processes of bin, `par` at a time (0 = all cores). Each sub-process is
// `bin <check> --task file --result file`. stopOnFound ends early once a violation was found.
func RunTasks(ctx *common.Ctx, bin string, tasks []Task, par int, stopOnFound bool) *Merged {
	if par <= 0 {
		par = runtime.NumCPU()
	}
	m := &Merged{States: map[uint64]struct{}{}, Outcomes: map[string]int{}, Signatures: map[string]int{}}
	var mu sync.Mutex
	var wg sync.WaitGroup
	sem := make(chan struct{}, par)
	stop := false
	for i := range tasks {
		mu.Lock()
		s := stop
		mu.Unlock()
		if s || ctx.Expired() {
			mu.Lock()
			m.Capped = append(m.Capped, fmt.Sprintf("task %s not started (deadline or earlier violation)", tasks[i].Name))
			mu.Unlock()
			continue
		}
		sem <- struct{}{}
		wg.Add(1)
		go func(i int) {
			defer wg.Done()
			defer func() { <-sem }()
			t := tasks[i]
			if rem := time.Until(ctx.Deadline).Seconds(); t.Budget == 0 || t.Budget > rem {
				t.Budget = rem
			}
			tf := filepath.Join(ctx.Work, fmt.Sprintf("task-%d.json", i))
			rf := filepath.Join(ctx.Work, fmt.Sprintf("res-%d.json", i))
			b, _ := json.Marshal(t)
			_ = os.WriteFile(tf, b, 0o644)
			cmd := exec.Command(bin, t.Check, "--tier", ctx.Tier, "--work", ctx.Work, "--task", tf, "--result", rf)
			cmd.Env = append(os.Environ(), "GOMAXPROCS=2", fmt.Sprintf("VERIF_SEED=%d", ctx.Seed))
			if t.W > 0 {
				// package initialisation of the code under test sees the CPU count the executions will see
				cmd.Env = append(cmd.Env, fmt.Sprintf("VSCHED_NUMCPU=%d", t.W))
			}
			var errb bytes.Buffer
			cmd.Stderr = &errb
			cmd.Stdout = &errb
			// the sub-process honours its budget itself; the watchdog only catches a real (uninstrumented)
			// blocking operation that freezes the cooperative scheduler
			limit := time.Duration(t.Budget*float64(time.Second)) + 3*time.Minute
			err := cmd.Start()
			if err == nil {
				doneCh := make(chan error, 1)
				go func() { doneCh <- cmd.Wait() }()
				select {
				case err = <-doneCh:
				case <-time.After(limit):
					_ = cmd.Process.Kill()
					err = fmt.Errorf("sub-process did not finish within %s (killed): an operation outside the instrumented set may block the controlled scheduler", limit)
				}
			}
			var r Result
			rb, rerr := os.ReadFile(rf)
			if rerr != nil || json.Unmarshal(rb, &r) != nil {
				r = Result{Task: t, ToolError: fmt.Sprintf("sub-process failed: %v: %s", err, tail(errb.String(), 2000))}
			}
			mu.Lock()
			defer mu.Unlock()
			m.Results = append(m.Results, &r)
			m.Execs += r.Execs
			m.Transitions += r.Transitions
			if r.MaxPoints > m.MaxPoints {
				m.MaxPoints = r.MaxPoints
			}
			if r.MaxThreads > m.MaxThreads {
				m.MaxThreads = r.MaxThreads
			}
			for k, v := range r.Outcomes {
				m.Outcomes[k] += v
			}
			for k, v := range r.Signatures {
				m.Signatures[k] += v
			}
			if r.Capped != "" {
				m.Capped = append(m.Capped, t.Name+": "+r.Capped)
			}
			if r.ToolError != "" {
				m.ToolErrors = append(m.ToolErrors, t.Name+": "+r.ToolError)
			}
			if r.Found != nil && stopOnFound {
				stop = true
			}
			if sb, err := os.ReadFile(rf + ".states"); err == nil {
				for o := 0; o+8 <= len(sb); o += 8 {
					if len(m.States) >= 6000000 {
						m.StatesLower = true
						break
					}
					// states of different tasks are different programs: salt with the task index
					m.States[binary.LittleEndian.Uint64(sb[o:])^uint64(taskSalt(t))] = struct{}{}
				}
				if m.perTask == nil {
					m.perTask = map[string]map[uint64]struct{}{}
				}
				if t.TrackStates && len(sb) <= 8*2000000 {
					set := m.perTask[t.Name]
					if set == nil {
						set = map[uint64]struct{}{}
						m.perTask[t.Name] = set
					}
					for o := 0; o+8 <= len(sb); o += 8 {
						set[binary.LittleEndian.Uint64(sb[o:])] = struct{}{}
					}
				}
			}
			_ = os.Remove(rf + ".states")
			_ = os.Remove(rf)
			_ = os.Remove(tf)
		}(i)
	}
	wg.Wait()
	sort.Slice(m.Results, func(a, b int) bool { return m.Results[a].Task.Name < m.Results[b].Task.Name })
	m.StatesPerTask = map[string]int{}
	for n, set := range m.perTask {
		m.StatesPerTask[n] = len(set)
	}
	m.perTask = nil
	return m
}

func taskSalt(t Task) uint64 {
	// shards of the same exploration share a salt so that their states are united, not added
	h := uint64(14695981039346656037)
	for _, c := range []byte(fmt.Sprintf("%s|%s|%d|%d|%d", t.Check, t.Name, t.Bound, t.Policy, t.W)) {
		h ^= uint64(c)
		h *= 1099511628211
	}
	return h
}

func tail(s string, n int) string {
	if len(s) > n {
		return s[len(s)-n:]
	}
	return s
}

// Handler serves one task inside an instrumented binary.
type Handler func(t Task) (*Result, map[uint64]struct{})

// SubMain is the entry of an instrumented tool binary: `<bin> <check> ... --task f --result f`.
// It does not use the flag package (the tools under test register their own flags on it).
func SubMain(handlers map[string]Handler) {
	args := os.Args
	if len(args) < 2 {
		fmt.Fprintln(os.Stderr, "instrumented binary: missing check id")
		os.Exit(2)
	}
	id := args[1]
	var taskFile, resultFile string
	for i := 2; i+1 < len(args); i++ {
		switch args[i] {
		case "--task":
			taskFile = args[i+1]
		case "--result":
			resultFile = args[i+1]
		}
	}
	h, ok := handlers[id]
	if !ok || taskFile == "" || resultFile == "" {
		fmt.Fprintln(os.Stderr, "instrumented binary: bad invocation", args)
		os.Exit(2)
	}
	b, err := os.ReadFile(taskFile)
	if err != nil {
		fmt.Fprintln(os.Stderr, err)
		os.Exit(2)
	}
	var t Task
	if err := json.Unmarshal(b, &t); err != nil {
		fmt.Fprintln(os.Stderr, err)
		os.Exit(2)
	}
	res, states := h(t)
	if err := WriteResult(resultFile, res, states); err != nil {
		fmt.Fprintln(os.Stderr, err)
		os.Exit(2)
	}
	os.Exit(0)
}

// Discover lists the package-level variables of the given packages (a throw-away analysis pass).
func Discover(ctx *common.Ctx, specs []PkgSpec) (map[string][]string, error) {
	out := map[string][]string{}
	for i, sp := range specs {
		dir := filepath.Join(ctx.Work, fmt.Sprintf("discover-%d", i))
		res, err := vinstr.Instrument(vinstr.Options{Dir: sp.Dir, OutDir: dir})
		_ = os.RemoveAll(dir)
		if err != nil {
			return nil, err
		}
		out[sp.Dir] = res.PkgVars
	}
	return out, nil
}
