// Package e2 drives tables of calls over enumerated inputs and compares with the reference model.
package e2

import (
	"fmt"
	"hash/fnv"
	"sync"
	"sync/atomic"

	"verif/calls"
	"verif/common"
	"verif/enum"
)

type prepared struct {
	c calls.Call
	h uint64
}

// Driver evaluates calls on inputs.
type Driver struct {
	Cmp   *enum.Cmp
	calls []prepared
	pool  sync.Pool
}

func New(cmp *enum.Cmp, cs []calls.Call) *Driver {
	d := &Driver{Cmp: cmp}
	for _, c := range cs {
		h := fnv.New64a()
		h.Write([]byte(c.Name))
		d.calls = append(d.calls, prepared{c, h.Sum64()})
	}
	return d
}

// One evaluates every admissible call on bits. describe renders the input on a mismatch.
// It returns the number of calls evaluated.
func (d *Driver) One(bits []bool, describe func() interface{}) int {
	n := 0
	// The sequence is handed over as callers cut samples out of a longer stream: a window with the next bits of
	// the stream behind it (capacity > length). The values the caller gets for the following sample are values of
	// the bits the caller supplied only if the call leaves the stream alone.
	// The buffer is reused from call to call (refilled with the next sequence), as a caller streaming samples
	// through one buffer does: a result remembered by buffer identity instead of content shows as a stale value.
	need := len(bits) + streamTail
	var win []bool
	if bp, ok := d.pool.Get().(*[]bool); ok && cap(*bp) >= need {
		win = (*bp)[:need]
	} else {
		win = make([]bool, need)
	}
	defer d.pool.Put(&win)
	copy(win, bits)
	for k := len(bits); k < len(win); k++ {
		win[k] = tailBit(k - len(bits))
	}
	in := win[:len(bits)]
	for i := range d.calls {
		pc := &d.calls[i]
		if len(bits) < pc.c.Min {
			continue
		}
		n++
		var got []float64
		if pv := common.Catch(func() { got = pc.c.Impl(in) }); pv != nil {
			d.Cmp.Panic(pc.c.Name, pv, describe())
			continue
		}
		if at := streamChanged(win, bits); at >= 0 {
			where := "inside the sequence"
			if at >= len(bits) {
				where = fmt.Sprintf("%d bit(s) behind the sequence, in the following sample of the same stream", at-len(bits)+1)
			}
			d.Cmp.Ctx.Report(pc.c.Name+"/stream", fmt.Sprintf("%s changed bit %d of the caller's buffer (%s): the next test on that stream is no longer computed from the bits the caller supplied", pc.c.Name, at, where),
				map[string]interface{}{"call": pc.c.Name, "input": describe(), "changed_bit": at, "sequence_length": len(bits)})
			copy(win, bits)
			for k := len(bits); k < len(win); k++ {
				win[k] = tailBit(k - len(bits))
			}
		}
		want := pc.c.Ref(bits)
		var slack []float64
		half := len(want) / 2
		for k := 0; k < half; k++ {
			name := pc.c.Name
			if half > 1 {
				name = fmt.Sprintf("%s[P%d]", pc.c.Name, k+1)
			}
			if !d.Cmp.Within(got[k], got[half+k], want[k], want[half+k], 0) {
				// mismatch at the plain tolerance: consult the call's conditioning slack before reporting
				if pc.c.Slack != nil && slack == nil {
					slack = pc.c.Slack(bits)
				}
				if slack != nil && d.Cmp.Within(got[k], got[half+k], want[k], want[half+k], slack[k]) {
					d.Cmp.NoteSlack(name)
					continue
				}
			}
			d.Cmp.PQ(name, pc.h+uint64(k), got[k], got[half+k], want[k], want[half+k], describe)
		}
	}
	return n
}

const streamTail = 64

func tailBit(k int) bool { return (k*7+3)%5 < 2 }

// streamChanged returns the first position at which the window differs from the sequence / the tail pattern, or -1.
func streamChanged(win, bits []bool) int {
	for k := range bits {
		if win[k] != bits[k] {
			return k
		}
	}
	for k := len(bits); k < len(win); k++ {
		if win[k] != tailBit(k-len(bits)) {
			return k
		}
	}
	return -1
}

// Names of the calls.
func (d *Driver) Names() []string {
	var out []string
	for _, c := range d.calls {
		out = append(out, c.c.Name)
	}
	return out
}

// Strings evaluates every bit string of length n.
func (d *Driver) Strings(n int) {
	var total int64
	enum.AllStrings(n, func(bits []bool, v uint64) {
		k := d.One(bits, func() interface{} { return map[string]interface{}{"n": n, "bits": common.BitString(bits)} })
		atomic.AddInt64(&total, int64(k))
	})
	d.Cmp.Count(fmt.Sprintf("all strings n=%d", n), total)
}

// LenSpec is one length of the periodic-pattern family with the longest base pattern used there.
type LenSpec struct {
	N       int
	MaxBase int
}

// S2 evaluates every base pattern (length <= MaxBase) repeated to N bits, with 0, 1 and (two=true, N<=twoMax)
// 2 bit flips at the critical positions. Returns the number of call evaluations.
func (d *Driver) S2(ctx *common.Ctx, specs []LenSpec, two bool, twoMax int, steps func(n int) []int) (evals int64, complete bool) {
	complete = true
	for _, sp := range specs {
		if ctx.Expired() {
			return evals, false
		}
		pats := enum.BasePatterns(sp.MaxBase)
		pos := enum.CriticalPositions(sp.N, steps(sp.N)...)
		if len(pos) > 14 {
			pos = pos[:14]
		}
		counts := make([]int64, len(pats))
		common.ParFor(len(pats), func(pi int) {
			base := enum.Repeat(pats[pi], sp.N)
			desc := func(fl []int) func() interface{} {
				return func() interface{} {
					return map[string]interface{}{"n": sp.N, "pattern": common.BitString(pats[pi]), "flips": fl}
				}
			}
			counts[pi] += int64(d.One(base, desc([]int{})))
			if sp.N > 100000 && pi%2 == 1 {
				return
			}
			for ai, a := range pos {
				base[a] = !base[a]
				counts[pi] += int64(d.One(base, desc([]int{a})))
				if two && sp.N <= twoMax {
					for _, b := range pos[ai+1:] {
						base[b] = !base[b]
						counts[pi] += int64(d.One(base, desc([]int{a, b})))
						base[b] = !base[b]
					}
				}
				base[a] = !base[a]
			}
		})
		for _, c := range counts {
			evals += c
		}
	}
	return
}

// Fillers evaluates, at every listed length, `per` fixed xorshift fillers plus biased and sparse
// variants of them: inputs with moderate P-values, on which a small miscount still moves the result
// by more than the tolerance (periodic patterns alone give P-values that are all but 0).
func (d *Driver) Fillers(ctx *common.Ctx, lens []int, per int, seed uint64) (evals int64, complete bool) {
	complete = true
	type item struct {
		n, k, variant int
	}
	var items []item
	for _, n := range lens {
		for k := 0; k < per; k++ {
			for v := 0; v < 3; v++ {
				items = append(items, item{n, k, v})
			}
		}
	}
	common.ParFor(len(items), func(i int) {
		if ctx.Expired() {
			complete = false
			return
		}
		it := items[i]
		s := seed + uint64(it.n)*131 + uint64(it.k)
		bits := enum.Filler(it.n, s)
		switch it.variant {
		case 1:
			for j := 0; j < it.n; j += 11 {
				bits[j] = true
			}
		case 2:
			for j := 3; j+1 < it.n; j += 17 {
				bits[j] = bits[j+1]
			}
		}
		k := d.One(bits, func() interface{} {
			return map[string]interface{}{"n": it.n, "filler_seed": s, "variant": []string{"plain", "every 11th bit set", "every 17th bit copied from its successor"}[it.variant]}
		})
		atomic.AddInt64(&evals, int64(k))
	})
	return
}

// WordLengths are lengths around machine-word and power-of-two boundaries (bit-packing optimisations
// go wrong exactly there): every n in 33..200 and the neighbours of 256, 512, 1024, 2048, 4096.
func WordLengths(plus ...int) []int {
	var out []int
	for n := 33; n <= 200; n++ {
		out = append(out, n)
	}
	for _, p := range []int{256, 512, 1024, 2048, 4096} {
		out = append(out, p-1, p, p+1, p+31, p+32, p+33, p+63, p+64, p+65)
	}
	return append(out, plus...)
}
