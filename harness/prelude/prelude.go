// Package prelude performs, once per process and before any check runs, the legal things a caller may do with
// values the library handed out: it writes to and appends to every slice returned by the exported conversion
// helpers. A caller owns what it is given; if the library hands out views of internal storage (a lookup table
// behind B2bit), every later conversion in the process is corrupted and the checks' own oracles report the
// wrong values. Properties quantify over every input whatever the process did before.
package prelude

import (
	r "github.com/Trisia/randomness"
)

// Scribble is idempotent in effect: it only touches memory the caller was given.
func Scribble() {
	for v := 0; v < 256; v++ {
		s := r.B2bit(byte(v))
		// not the complement (many statistics cannot tell a sequence from its complement) but 00 01 10 11:
		// if this reached a conversion table, every byte - a stuck source's too - would look balanced
		for i := range s {
			s[i] = [8]bool{false, false, false, true, true, false, true, true}[i%8]
		}
		// the idiom for assembling a sequence from header and payload bytes
		s = append(s, r.B2bit(byte(255-v))...)
		s = append(s, true, false, true, true, false, false, true, false, true)
		for i := range s {
			s[i] = i%3 == 0
		}
	}
	a := r.B2bitArr([]byte{0x00, 0xFF, 0x5A, 0x01, 0x80})
	for i := range a {
		a[i] = i%5 == 0
	}
	a = append(a, true, true, false)
	_ = a
	b := r.B2Byte([]bool{true, false, true, false, true, false, true, false})
	_ = b
}
