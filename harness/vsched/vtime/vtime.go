// Package time (import path verif/vsched/vtime) replaces the standard time package in instrumented files:
// everything is the standard library's, except the timers, which are modelled by the controlled scheduler
// inside an execution (see vsched/timer.go) and real outside one.
package time

import (
	stdtime "time"

	"verif/vsched"
)

type (
	Time       = stdtime.Time
	Duration   = stdtime.Duration
	Month      = stdtime.Month
	Weekday    = stdtime.Weekday
	Location   = stdtime.Location
	ParseError = stdtime.ParseError
	Ticker     = vsched.Ticker
	Timer      = vsched.Timer
)

const (
	Nanosecond  = stdtime.Nanosecond
	Microsecond = stdtime.Microsecond
	Millisecond = stdtime.Millisecond
	Second      = stdtime.Second
	Minute      = stdtime.Minute
	Hour        = stdtime.Hour

	ANSIC       = stdtime.ANSIC
	UnixDate    = stdtime.UnixDate
	RubyDate    = stdtime.RubyDate
	RFC822      = stdtime.RFC822
	RFC822Z     = stdtime.RFC822Z
	RFC850      = stdtime.RFC850
	RFC1123     = stdtime.RFC1123
	RFC1123Z    = stdtime.RFC1123Z
	RFC3339     = stdtime.RFC3339
	RFC3339Nano = stdtime.RFC3339Nano
	Kitchen     = stdtime.Kitchen
	Stamp       = stdtime.Stamp
	StampMilli  = stdtime.StampMilli
	StampMicro  = stdtime.StampMicro
	StampNano   = stdtime.StampNano

	January   = stdtime.January
	February  = stdtime.February
	March     = stdtime.March
	April     = stdtime.April
	May       = stdtime.May
	June      = stdtime.June
	July      = stdtime.July
	August    = stdtime.August
	September = stdtime.September
	October   = stdtime.October
	November  = stdtime.November
	December  = stdtime.December

	Sunday    = stdtime.Sunday
	Monday    = stdtime.Monday
	Tuesday   = stdtime.Tuesday
	Wednesday = stdtime.Wednesday
	Thursday  = stdtime.Thursday
	Friday    = stdtime.Friday
	Saturday  = stdtime.Saturday
)

var (
	UTC   = stdtime.UTC
	Local = stdtime.Local
)

func Now() Time                       { return stdtime.Now() }
func Since(t Time) Duration           { return stdtime.Since(t) }
func Until(t Time) Duration           { return stdtime.Until(t) }
func Unix(sec, nsec int64) Time       { return stdtime.Unix(sec, nsec) }
func UnixMilli(ms int64) Time         { return stdtime.UnixMilli(ms) }
func UnixMicro(us int64) Time         { return stdtime.UnixMicro(us) }
func Parse(l, v string) (Time, error) { return stdtime.Parse(l, v) }
func ParseInLocation(l, v string, loc *Location) (Time, error) {
	return stdtime.ParseInLocation(l, v, loc)
}
func ParseDuration(s string) (Duration, error) { return stdtime.ParseDuration(s) }
func LoadLocation(n string) (*Location, error) { return stdtime.LoadLocation(n) }
func FixedZone(name string, off int) *Location { return stdtime.FixedZone(name, off) }
func Date(y int, m Month, d, h, mi, s, ns int, loc *Location) Time {
	return stdtime.Date(y, m, d, h, mi, s, ns, loc)
}

// the modelled part
func Sleep(d Duration)                      { vsched.Sleep(d) }
func NewTicker(d Duration) *Ticker          { return vsched.NewTicker(d) }
func NewTimer(d Duration) *Timer            { return vsched.NewTimer(d) }
func AfterFunc(d Duration, f func()) *Timer { return vsched.AfterFunc(d, f) }
func After(d Duration) *vsched.Chan[Time]   { return vsched.After(d) }
func Tick(d Duration) *vsched.Chan[Time]    { return vsched.Tick(d) }
