// Package atomic (import path verif/vsched/vatomic) replaces sync/atomic in instrumented files.
package atomic

import "verif/vsched"

type (
	Int32  = vsched.Int32
	Int64  = vsched.Int64
	Bool   = vsched.Bool
	Value  = vsched.Value
	Uint32 = vsched.Uint32
	Uint64 = vsched.Uint64
)

var (
	AddInt32             = vsched.AddInt32
	AddInt64             = vsched.AddInt64
	AddUint32            = vsched.AddUint32
	AddUint64            = vsched.AddUint64
	LoadInt32            = vsched.LoadInt32
	LoadInt64            = vsched.LoadInt64
	LoadUint32           = vsched.LoadUint32
	LoadUint64           = vsched.LoadUint64
	StoreInt32           = vsched.StoreInt32
	StoreInt64           = vsched.StoreInt64
	StoreUint32          = vsched.StoreUint32
	StoreUint64          = vsched.StoreUint64
	SwapInt32            = vsched.SwapInt32
	SwapInt64            = vsched.SwapInt64
	CompareAndSwapInt32  = vsched.CompareAndSwapInt32
	CompareAndSwapInt64  = vsched.CompareAndSwapInt64
	CompareAndSwapUint32 = vsched.CompareAndSwapUint32
	CompareAndSwapUint64 = vsched.CompareAndSwapUint64
)
