// Package vsched is a cooperative, fully controlled scheduler for Go code whose
// synchronisation operations have been rewritten (by vinstr) to the shims of this
// package.  Exactly one thread runs at a time; before every visible operation the
// running thread reaches a scheduling point at which the explorer decides who runs
// next.  Blocking is modelled (an operation is either enabled or not), never spun,
// so "no enabled thread while some thread is unfinished" is a deadlock.
package vsched

import (
	"fmt"
	"hash/fnv"
	"os"
	"runtime"
	"runtime/debug"
	"sort"
	"strconv"
	"sync"
)

type opKind int

const (
	opNone opKind = iota
	opStart
	opYield
	opSend
	opRecv
	opClose
	opWgAdd
	opWgWait
	opLock
	opUnlock
	opRLock
	opRUnlock
	opOnce
	opAtomic
	opSpawn
	opSelect
	opChoose
	opTimer
)

var opNames = map[opKind]string{opNone: "none", opStart: "start", opYield: "yield", opSend: "send", opRecv: "recv",
	opClose: "close", opWgAdd: "wg.add", opWgWait: "wg.wait", opLock: "lock", opUnlock: "unlock", opRLock: "rlock",
	opRUnlock: "runlock", opOnce: "once", opAtomic: "atomic", opSpawn: "go", opSelect: "select", opChoose: "choose", opTimer: "timer"}

// pendingOp is what a thread declared at its scheduling point.
type pendingOp struct {
	kind      opKind
	obj       int         // object id (channel, waitgroup, ...), 0 if none
	label     string      // for yields / touches
	enabled   func() bool // nil = always enabled
	completed bool        // a partner already performed the operation on our behalf (rendezvous)
}

type thread struct {
	id          int
	wake        chan struct{}
	pending     *pendingOp
	done        bool
	started     bool
	nops        int
	lastRun     int
	touches     int
	siteTouches map[int]int
	delayed     int // step at which the thread was switched away from while it could have run (0: not delayed)
	// rendezvous slots
	slot   interface{}
	slotOK bool
	// inOnce: the Once whose function this thread is executing (outermost); fromOnce: the thread was started,
	// directly or through its ancestors, inside a Once function (a helper pool built on first use)
	inOnce   *Once
	fromOnce bool
	// timer: a daemon thread that models a time.Timer/Ticker (see timer.go); longTimer: fires only at quiescence
	timer     bool
	longTimer bool
}

// PointRec describes one branching point of an execution.
type PointRec struct {
	N              int  // number of alternatives
	RunningEnabled bool // the running thread was among them (choice 0); switching away is a preemption
	Env            bool // environment choice (vsched.Choose): every non-zero choice is a deviation
	Choice         int
}

// Outcome of one execution.
type Outcome int

const (
	OutDone     Outcome = iota // every thread finished
	OutDeadlock                // unfinished threads, none enabled, main not returned
	OutLeak                    // main returned, some other thread can never run again
	OutPanic                   // a thread panicked
	OutHorizon                 // step horizon exceeded (livelock)
	OutExit                    // ExitOnMainReturn: main returned, others discarded
)

func (o Outcome) String() string {
	return [...]string{"done", "deadlock", "leak", "panic", "horizon", "exit"}[o]
}

// Options for one execution.
type Options struct {
	ExitOnMainReturn bool // the return of thread 0 is process exit
	MaxSteps         int  // step horizon (0 = 1e6)
	NumCPU           int  // what the shimmed runtime.NumCPU() answers
	TraceLog         bool // keep the observation log (determinism check / replay artefact)
	Policy           int  // canonical order of the non-running enabled threads: 0 ascending id, 1 descending id, 2 least recently run first, 3 delayed threads last
}

// Exec is the record of one execution.
type Exec struct {
	Points     []PointRec
	Outcome    Outcome
	PanicVal   string
	PanicStack string
	Blocked    []string // description of the threads that can never run again (deadlock / leak)
	Steps      int
	Threads    int
	Log        []string // observation log when TraceLog
	LogHash    uint64   // hash of all observations (always)
	States     map[uint64]struct{}
	ReplayErr  string // non-empty: the prefix could not be replayed (hard error)
	MainDone   bool
	// LeakFromOnce: every thread left blocked at the end was started inside a sync.Once function: a helper pool
	// built on first use. Such a Once is run again by the next execution, so the pool is rebuilt each time.
	LeakFromOnce bool
	Exited       bool // os.Exit was called
	ExitCode     int
}

// Choices returns the choice vector of the execution.
func (x *Exec) Choices() []int {
	c := make([]int, len(x.Points))
	for i, p := range x.Points {
		c[i] = p.Choice
	}
	return c
}

type sched struct {
	hasTimers bool
	opt       Options
	threads   []*thread
	running   *thread
	prefix    []int
	pos       int
	x         *Exec
	nextObj   int
	objs      []stateful
	aborting  bool
	finished  bool
	endCh     chan struct{}
	wg        sync.WaitGroup // real goroutines of this execution
	seq       uint64         // arrival counter for FIFO queues
	logh      uint64
	stateSet  map[uint64]struct{}
	extra     func() uint64 // harness state digest
}

type stateful interface {
	stateHash() uint64
}

var cur *sched

// Active reports whether the caller runs inside a controlled execution.
func Active() bool { return cur != nil && !cur.finished }

// NumCPU is what the shimmed runtime.NumCPU returns.
func NumCPU() int {
	if cur != nil && cur.opt.NumCPU > 0 {
		return cur.opt.NumCPU
	}
	if initNumCPU > 0 {
		return initNumCPU
	}
	return runtime.NumCPU()
}

// initNumCPU (environment VSCHED_NUMCPU) is what NumCPU answers outside an execution, i.e. during the
// package initialisation of instrumented code, so that a limiter sized there matches Options.NumCPU.
var initNumCPU = func() int {
	n, _ := strconv.Atoi(os.Getenv("VSCHED_NUMCPU"))
	return n
}()

// SetStateDigest installs a harness-side digest that is mixed into the state fingerprint.
func SetStateDigest(f func() uint64) {
	if cur != nil {
		cur.extra = f
	}
}

const goexitMarker = "vsched: abort"

// Run executes body as thread 0 under the controlled scheduler, replaying prefix and then
// taking choice 0 at every later point.
func Run(body func(), prefix []int, opt Options) *Exec {
	if cur != nil && !cur.finished {
		panic("vsched: nested Run")
	}
	if opt.MaxSteps == 0 {
		opt.MaxSteps = 1000000
	}
	s := &sched{opt: opt, prefix: prefix, endCh: make(chan struct{}), stateSet: map[uint64]struct{}{}}
	s.x = &Exec{}
	cur = s
	t0 := s.newThread(body)
	s.running = t0
	t0.started = true
	t0.wake <- struct{}{}
	<-s.endCh
	// abort whatever is still parked
	s.aborting = true
	for _, t := range s.threads {
		if !t.done {
			select {
			case t.wake <- struct{}{}:
			default:
			}
		}
	}
	s.wg.Wait()
	s.finished = true
	s.x.Threads = len(s.threads)
	s.x.LogHash = s.logh
	s.x.States = s.stateSet
	x := s.x
	cur = nil
	return x
}

func (s *sched) newThread(f func()) *thread {
	t := &thread{id: len(s.threads), wake: make(chan struct{}, 1)}
	t.pending = &pendingOp{kind: opStart}
	s.threads = append(s.threads, t)
	s.wg.Add(1)
	go func() {
		normal := false
		defer func() {
			defer s.wg.Done()
			if s.aborting {
				_ = recover()
				return
			}
			if !normal {
				r := recover()
				if r != nil {
					s.x.Outcome = OutPanic
					s.x.PanicVal = fmt.Sprint(r)
					s.x.PanicStack = string(debug.Stack())
					t.done = true
					s.end()
					return
				}
				// Goexit outside abort (runtime.Goexit called by code under test): treat as thread end
			}
			s.threadExit(t)
		}()
		<-t.wake
		if s.aborting {
			return
		}
		t.pending = nil
		f()
		normal = true
	}()
	return t
}

func (s *sched) end() {
	if !s.aborting {
		s.aborting = true
		close(s.endCh)
	}
}

// threadExit: the running thread finished; hand over.
func (s *sched) threadExit(t *thread) {
	t.done = true
	s.observe(t, "exit", 0, 0)
	if t.id == 0 {
		s.x.MainDone = true
		if s.opt.ExitOnMainReturn {
			s.x.Outcome = OutExit
			s.end()
			return
		}
	}
	next := s.pick(nil)
	if next == nil {
		return // execution ended inside pick
	}
	s.running = next
	next.wake <- struct{}{}
}

func (s *sched) timerThreads() []*thread {
	if !s.hasTimers {
		return nil
	}
	var out []*thread
	for _, t := range s.threads {
		if t.timer && !t.done {
			out = append(out, t)
		}
	}
	return out
}

func (s *sched) isEnabled(t *thread) bool {
	if t.done {
		return false
	}
	p := t.pending
	if p == nil {
		return true
	}
	if p.completed || p.enabled == nil {
		return true
	}
	return p.enabled()
}

// pick decides who runs next. self is the running thread (nil when it just exited).
// Returns nil when the execution has ended.
func (s *sched) pick(self *thread) *thread {
	s.x.Steps++
	if s.x.Steps > s.opt.MaxSteps {
		s.x.Outcome = OutHorizon
		s.end()
		return nil
	}
	var en []*thread
	runningEnabled := false
	if self != nil && s.isEnabled(self) {
		en = append(en, self)
		runningEnabled = true
	}
	first := len(en)
	for _, t := range s.threads {
		if t != self && s.isEnabled(t) {
			en = append(en, t)
		}
	}
	if rest := en[first:]; len(rest) > 1 {
		switch s.opt.Policy {
		case 1:
			for i, j := 0, len(rest)-1; i < j; i, j = i+1, j-1 {
				rest[i], rest[j] = rest[j], rest[i]
			}
		case 2:
			sort.SliceStable(rest, func(i, j int) bool { return rest[i].lastRun < rest[j].lastRun })
		case 3:
			// delay-bounded scheduling: a thread that was preempted goes to the back of the queue and stays
			// there until everything else is blocked (ascending id among the others, oldest delay first)
			sort.SliceStable(rest, func(i, j int) bool { return rest[i].delayed < rest[j].delayed })
		}
	}
	// timers: behind every other enabled thread whatever the policy; long ones only when nothing else can run;
	// once every ordinary thread has finished, the execution is over (timers are daemons)
	if len(s.timerThreads()) > 0 {
		ordinaryLeft, ordinaryEnabled := false, false
		for _, t := range s.threads {
			if !t.timer && !t.done {
				ordinaryLeft = true
			}
		}
		for _, t := range en {
			if !t.timer {
				ordinaryEnabled = true
			}
		}
		if !ordinaryLeft {
			en = nil
		} else {
			var ord, tim []*thread
			for i, t := range en {
				switch {
				case i < first || !t.timer:
					ord = append(ord, t)
				case t.longTimer && ordinaryEnabled:
				default:
					tim = append(tim, t)
				}
			}
			en = append(ord, tim...)
		}
	}
	s.recordState()
	if len(en) == 0 {
		unfinished := false
		allOnce := true
		for _, t := range s.threads {
			if !t.done && !t.timer {
				unfinished = true
				allOnce = allOnce && t.fromOnce
				s.x.Blocked = append(s.x.Blocked, s.describe(t))
			}
		}
		s.x.LeakFromOnce = unfinished && allOnce
		switch {
		case !unfinished:
			s.x.Outcome = OutDone
		case s.x.MainDone:
			s.x.Outcome = OutLeak
		default:
			s.x.Outcome = OutDeadlock
		}
		s.end()
		return nil
	}
	if len(en) == 1 {
		en[0].lastRun = s.x.Steps
		en[0].delayed = 0
		return en[0]
	}
	c := s.decide(len(en), runningEnabled, false)
	if c < 0 {
		return nil
	}
	if runningEnabled && c != 0 {
		self.delayed = s.x.Steps
	}
	en[c].lastRun = s.x.Steps
	en[c].delayed = 0
	return en[c]
}

func (s *sched) decide(n int, runningEnabled, env bool) int {
	c := 0
	if s.pos < len(s.prefix) {
		c = s.prefix[s.pos]
		if c < 0 || c >= n {
			s.x.ReplayErr = fmt.Sprintf("replay divergence at point %d: choice %d of %d alternatives", s.pos, c, n)
			s.x.Outcome = OutHorizon
			s.end()
			return -1
		}
	}
	s.pos++
	s.x.Points = append(s.x.Points, PointRec{N: n, RunningEnabled: runningEnabled, Env: env, Choice: c})
	return c
}

func (s *sched) describe(t *thread) string {
	p := t.pending
	if p == nil {
		return fmt.Sprintf("T%d running", t.id)
	}
	return fmt.Sprintf("T%d blocked at %s obj=%d %s", t.id, opNames[p.kind], p.obj, p.label)
}

// point is the scheduling point in front of a visible operation of the running thread.
// On return the thread has been chosen to perform the operation (or it was completed by a partner).
func (s *sched) point(p *pendingOp) {
	t := s.running
	if s.aborting {
		runtime.Goexit()
	}
	t.pending = p
	t.nops++
	next := s.pick(t)
	if next == nil {
		// execution ended (deadlock, horizon, replay error): park until aborted
		<-t.wake
		runtime.Goexit()
	}
	if next != t {
		s.running = next
		next.wake <- struct{}{}
		<-t.wake
		if s.aborting {
			runtime.Goexit()
		}
	}
	s.observe(t, opNames[p.kind], p.obj, 0)
}

func (s *sched) observe(t *thread, what string, obj int, val uint64) {
	h := fnv.New64a()
	var b [8]byte
	put := func(v uint64) {
		for i := 0; i < 8; i++ {
			b[i] = byte(v >> (8 * uint(i)))
		}
		h.Write(b[:])
	}
	put(s.logh)
	put(uint64(t.id))
	h.Write([]byte(what))
	put(uint64(obj))
	put(val)
	s.logh = h.Sum64()
	if s.opt.TraceLog {
		s.x.Log = append(s.x.Log, fmt.Sprintf("T%d %s obj=%d val=%x", t.id, what, obj, val))
	}
}

// Observe lets the harness add an observation (value received, bytes returned, ...) to the log.
func Observe(what string, val uint64) {
	s := cur
	if s == nil || s.finished || s.aborting {
		return
	}
	s.observe(s.running, what, 0, val)
}

func (s *sched) recordState() {
	h := uint64(1469598103934665603)
	mix := func(v uint64) {
		h ^= v
		h *= 1099511628211
		h ^= h >> 29
	}
	for _, t := range s.threads {
		v := uint64(t.nops) << 8
		if t.done {
			v |= 1
		}
		if t.pending != nil {
			v |= uint64(t.pending.kind) << 1
			if t.pending.completed {
				v |= 1 << 7
			}
			mix(uint64(t.pending.obj))
		}
		mix(v)
	}
	for _, o := range s.objs {
		mix(o.stateHash())
	}
	if s.extra != nil {
		mix(s.extra())
	}
	s.stateSet[h] = struct{}{}
}

func (s *sched) newObj(o stateful) int {
	s.nextObj++
	s.objs = append(s.objs, o)
	return s.nextObj
}

// ---- harness-visible primitives ----

// Yield is an always-enabled scheduling point (entry/exit of a source Read, of a stub runner, a file write...).
func Yield(label string) {
	s := cur
	if s == nil || s.finished {
		return
	}
	s.point(&pendingOp{kind: opYield, label: label})
}

// Touch is a scheduling point in front of an access to shared package-level state. Only the first
// MaxTouches touches of a thread are scheduling points (a scratch buffer filled in a loop would
// otherwise make the execution tree unbounded).
func Touch(name string) {
	s := cur
	if s == nil || s.finished || s.running == nil {
		return
	}
	t := s.running
	if t.touches >= MaxTouches {
		return
	}
	t.touches++
	s.point(&pendingOp{kind: opYield, label: name})
}

// MaxTouches bounds the Touch scheduling points per thread.
var MaxTouches = 64

// MaxTouchesPerSite bounds how often one static Touch site is a scheduling point per thread: a scratch
// buffer filled in a loop spends its budget on the first iterations of each statement, so that the
// statements after the loop (the use of the buffer) still get their scheduling points.
var MaxTouchesPerSite = 2

// TouchAt is Touch with the identity of the static site (numbered by the instrumenter).
func TouchAt(site int, name string) {
	s := cur
	if s == nil || s.finished || s.running == nil {
		return
	}
	t := s.running
	if t.touches >= MaxTouches {
		return
	}
	if t.siteTouches == nil {
		t.siteTouches = map[int]int{}
	}
	if t.siteTouches[site] >= MaxTouchesPerSite {
		return
	}
	t.siteTouches[site]++
	t.touches++
	s.point(&pendingOp{kind: opYield, label: name})
}

// Choose is an environment choice point with n alternatives; choice 0 is the default answer.
func Choose(n int) int {
	s := cur
	if s == nil || s.finished || n <= 1 {
		return 0
	}
	if s.aborting {
		runtime.Goexit()
	}
	c := s.decide(n, false, true)
	if c < 0 {
		<-s.running.wake
		runtime.Goexit()
	}
	return c
}

// Go spawns a controlled thread.
func Go(f func()) {
	s := cur
	if s == nil || s.finished {
		go f()
		return
	}
	s.point(&pendingOp{kind: opSpawn})
	parent := s.running
	t := s.newThread(f)
	if parent != nil && (parent.inOnce != nil || parent.fromOnce) {
		t.fromOnce = true
		if parent.inOnce != nil {
			parent.inOnce.spawned = true
		}
	}
}

// ThreadID returns the id of the running controlled thread (-1 outside an execution).
func ThreadID() int {
	s := cur
	if s == nil || s.finished || s.running == nil {
		return -1
	}
	return s.running.id
}
