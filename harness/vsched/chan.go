package vsched

import (
	"reflect"
	"runtime"
)

// Chan is the controlled replacement of a Go channel. Outside a controlled execution it
// falls back to a real channel so that instrumented code still works free-running.
//
// A channel made outside an execution (a package-level variable of the code under test: a token
// pool, a limiter) and then used inside one is adopted by that execution: it is modelled like any
// other channel, starting every execution from the contents it had when it was first adopted (the
// state package initialisation left it in), so that executions stay independent and replayable and a
// thread blocked on it is seen by the scheduler instead of hanging the process.
type Chan[T any] struct {
	id     int
	cap    int
	buf    []T
	closed bool
	recvq  []*waiter[T]
	sendq  []*waiter[T]
	real   chan T
	owner  *sched // execution that adopted a channel made outside one
	snap   bool
	init   []T
}

// live reports whether the operation must take the real-channel path; otherwise the channel is
// (adopted and) modelled.
func (c *Chan[T]) live(s *sched) bool {
	if c == nil || c.real == nil {
		return false
	}
	if s == nil || s.finished {
		return true
	}
	if c.owner == s {
		return false
	}
	if !c.snap {
		c.snap = true
	drain:
		for {
			select {
			case v, ok := <-c.real:
				if !ok {
					break drain
				}
				c.init = append(c.init, v)
			default:
				break drain
			}
		}
		for _, v := range c.init {
			c.real <- v
		}
	}
	c.owner = s
	c.id = s.newObj(c)
	c.buf = append([]T(nil), c.init...)
	c.closed = false
	c.recvq, c.sendq = nil, nil
	return false
}

type waiter[T any] struct {
	t   *thread
	p   *pendingOp
	val T
	ok  bool
	sel *selState // non-nil: this waiter is one case of a select
	idx int
}

// selState is shared by the waiters of one select statement.
type selState struct {
	chosen  int
	val     interface{}
	ok      bool
	cleanup []func()
}

// complete marks a waiter as served by a partner; for a select case it also withdraws the other cases.
func (w *waiter[T]) complete() {
	w.p.completed = true
	if w.sel != nil {
		w.sel.chosen = w.idx
		w.sel.val, w.sel.ok = w.val, w.ok
		for _, f := range w.sel.cleanup {
			f()
		}
	}
}

func NewChan[T any](n int) *Chan[T] {
	c := &Chan[T]{cap: n}
	if s := cur; s != nil && !s.finished {
		c.id = s.newObj(c)
	} else {
		c.real = make(chan T, n)
	}
	return c
}

func (c *Chan[T]) stateHash() uint64 {
	v := uint64(c.id)<<32 | uint64(len(c.buf))<<8 | uint64(len(c.recvq))<<4 | uint64(len(c.sendq))<<1
	if c.closed {
		v |= 1
	}
	return v
}

func blockForever(s *sched, kind opKind) {
	s.point(&pendingOp{kind: kind, label: "nil channel", enabled: func() bool { return false }})
}

func (c *Chan[T]) Send(v T) {
	s := cur
	if c.live(s) {
		c.real <- v
		return
	}
	if s == nil || s.finished {
		panic("vsched: controlled channel used outside an execution")
	}
	if c == nil {
		blockForever(s, opSend)
		return
	}
	t := s.running
	p := &pendingOp{kind: opSend, obj: c.id}
	w := &waiter[T]{t: t, p: p, val: v}
	c.sendq = append(c.sendq, w)
	p.enabled = func() bool { return c.canSend() }
	s.point(p)
	if p.completed {
		return
	}
	c.sendq = removeWaiter(c.sendq, w)
	if c.closed {
		panic("send on closed channel")
	}
	c.put(v)
}

// canSend: a send can proceed when the channel is closed (it panics), when the buffer has room, or - unbuffered
// channel - when a receiver is waiting. A receiver registered at a BUFFERED channel is either blocked on an empty
// buffer or merely standing at its scheduling point with data available; in both cases the value goes through the
// buffer, never past it: handing it to the receiver directly would let a later send overtake buffered values
// (Go channels are FIFO).
func (c *Chan[T]) canSend() bool {
	return c.closed || len(c.buf) < c.cap || (c.cap == 0 && len(c.recvq) > 0)
}

// put performs a send that canSend allowed (channel not closed).
func (c *Chan[T]) put(v T) {
	if c.cap == 0 {
		r := c.recvq[0]
		c.recvq = c.recvq[1:]
		r.val, r.ok = v, true
		r.complete()
		return
	}
	c.buf = append(c.buf, v)
}

func removeWaiter[T any](q []*waiter[T], w *waiter[T]) []*waiter[T] {
	for i, x := range q {
		if x == w {
			return append(q[:i:i], q[i+1:]...)
		}
	}
	return q
}

// Recv is `v, ok := <-c`.
func (c *Chan[T]) Recv() (T, bool) {
	s := cur
	if c.live(s) {
		v, ok := <-c.real
		return v, ok
	}
	if s == nil || s.finished {
		panic("vsched: controlled channel used outside an execution")
	}
	var zero T
	if c == nil {
		blockForever(s, opRecv)
		return zero, false
	}
	t := s.running
	p := &pendingOp{kind: opRecv, obj: c.id}
	w := &waiter[T]{t: t, p: p}
	c.recvq = append(c.recvq, w)
	p.enabled = func() bool { return len(c.buf) > 0 || c.closed || len(c.sendq) > 0 }
	s.point(p)
	if p.completed {
		return w.val, w.ok
	}
	c.recvq = removeWaiter(c.recvq, w)
	if len(c.buf) > 0 {
		v := c.buf[0]
		c.buf = append(c.buf[:0:0], c.buf[1:]...)
		if len(c.sendq) > 0 {
			sw := c.sendq[0]
			c.sendq = c.sendq[1:]
			c.buf = append(c.buf, sw.val)
			sw.complete()
		}
		return v, true
	}
	if len(c.sendq) > 0 {
		sw := c.sendq[0]
		c.sendq = c.sendq[1:]
		sw.complete()
		return sw.val, true
	}
	return zero, false
}

// Recv1 is `<-c`.
func (c *Chan[T]) Recv1() T {
	v, _ := c.Recv()
	return v
}

func (c *Chan[T]) Close() {
	s := cur
	if c.live(s) {
		close(c.real)
		return
	}
	if s == nil || s.finished {
		panic("vsched: controlled channel used outside an execution")
	}
	if c == nil {
		s.point(&pendingOp{kind: opClose})
		panic("close of nil channel")
	}
	s.point(&pendingOp{kind: opClose, obj: c.id})
	if c.closed {
		panic("close of closed channel")
	}
	c.closed = true
	// blocked senders will panic when scheduled (they are enabled now); receivers get zero,false.
}

func (c *Chan[T]) Len() int {
	if c == nil {
		return 0
	}
	if c.live(cur) {
		return len(c.real)
	}
	return len(c.buf)
}

func (c *Chan[T]) Cap() int {
	if c == nil {
		return 0
	}
	return c.cap
}

// ---- select ----

// SelCase is one communication clause of a select statement.
type SelCase interface {
	reflectCase() reflect.SelectCase
	adopt(s *sched)
	ready() bool
	register(s *sched, p *pendingOp, st *selState, idx int)
	exec() (interface{}, bool)
}

type sendCase[T any] struct {
	c *Chan[T]
	v T
	w *waiter[T]
}

type recvCase[T any] struct {
	c *Chan[T]
	w *waiter[T]
}

func (c *Chan[T]) SendCase(v T) SelCase { return &sendCase[T]{c: c, v: v} }
func (c *Chan[T]) RecvCase() SelCase    { return &recvCase[T]{c: c} }

// As converts the value delivered by Select to the element type of c.
func As[T any](c *Chan[T], v interface{}) T {
	if v == nil {
		var zero T
		return zero
	}
	return v.(T)
}

func (k *sendCase[T]) reflectCase() reflect.SelectCase {
	var ch chan T
	if k.c != nil {
		if k.c.real == nil {
			panic("vsched: controlled channel used outside an execution")
		}
		ch = k.c.real
	}
	return reflect.SelectCase{Dir: reflect.SelectSend, Chan: reflect.ValueOf(ch), Send: reflect.ValueOf(&k.v).Elem()}
}

func (k *recvCase[T]) reflectCase() reflect.SelectCase {
	var ch chan T
	if k.c != nil {
		if k.c.real == nil {
			panic("vsched: controlled channel used outside an execution")
		}
		ch = k.c.real
	}
	return reflect.SelectCase{Dir: reflect.SelectRecv, Chan: reflect.ValueOf(ch)}
}

// selectReal is a select statement outside a controlled execution: the real channels, the real runtime.
func selectReal(hasDefault bool, cases []SelCase) (int, interface{}, bool) {
	rc := make([]reflect.SelectCase, 0, len(cases)+1)
	for _, k := range cases {
		rc = append(rc, k.reflectCase())
	}
	if hasDefault {
		rc = append(rc, reflect.SelectCase{Dir: reflect.SelectDefault})
	}
	i, v, ok := reflect.Select(rc)
	if hasDefault && i == len(cases) {
		return -1, nil, false
	}
	if rc[i].Dir == reflect.SelectRecv && v.IsValid() {
		return i, v.Interface(), ok
	}
	return i, nil, false
}

func (k *sendCase[T]) adopt(s *sched) { k.c.live(s) }
func (k *recvCase[T]) adopt(s *sched) { k.c.live(s) }

func (k *sendCase[T]) ready() bool {
	c := k.c
	if c == nil {
		return false
	}
	return c.canSend()
}

func (k *sendCase[T]) register(s *sched, p *pendingOp, st *selState, idx int) {
	if k.c == nil {
		return
	}
	k.w = &waiter[T]{t: s.running, p: p, val: k.v, sel: st, idx: idx}
	k.c.sendq = append(k.c.sendq, k.w)
	st.cleanup = append(st.cleanup, func() { k.c.sendq = removeWaiter(k.c.sendq, k.w) })
}

func (k *sendCase[T]) exec() (interface{}, bool) {
	c := k.c
	if c.closed {
		panic("send on closed channel")
	}
	c.put(k.v)
	return nil, false
}

func (k *recvCase[T]) ready() bool {
	c := k.c
	if c == nil {
		return false
	}
	return len(c.buf) > 0 || c.closed || len(c.sendq) > 0
}

func (k *recvCase[T]) register(s *sched, p *pendingOp, st *selState, idx int) {
	if k.c == nil {
		return
	}
	k.w = &waiter[T]{t: s.running, p: p, sel: st, idx: idx}
	k.c.recvq = append(k.c.recvq, k.w)
	st.cleanup = append(st.cleanup, func() { k.c.recvq = removeWaiter(k.c.recvq, k.w) })
}

func (k *recvCase[T]) exec() (interface{}, bool) {
	c := k.c
	if len(c.buf) > 0 {
		v := c.buf[0]
		c.buf = append(c.buf[:0:0], c.buf[1:]...)
		if len(c.sendq) > 0 {
			sw := c.sendq[0]
			c.sendq = c.sendq[1:]
			c.buf = append(c.buf, sw.val)
			sw.complete()
		}
		return v, true
	}
	if len(c.sendq) > 0 {
		sw := c.sendq[0]
		c.sendq = c.sendq[1:]
		sw.complete()
		return sw.val, true
	}
	var zero T
	return zero, false
}

// Select models a select statement: it returns the index of the chosen case (-1 = default),
// and for a receive case the value and the ok flag. Which of several ready cases is taken is a
// scheduling decision (the runtime chooses pseudo-randomly), explored like any other.
func Select(hasDefault bool, cases ...SelCase) (int, interface{}, bool) {
	s := active()
	if s == nil {
		return selectReal(hasDefault, cases)
	}
	for _, k := range cases {
		k.adopt(s)
	}
	p := &pendingOp{kind: opSelect}
	st := &selState{chosen: -2}
	p.enabled = func() bool {
		if hasDefault {
			return true
		}
		for _, k := range cases {
			if k.ready() {
				return true
			}
		}
		return false
	}
	for i, k := range cases {
		k.register(s, p, st, i)
	}
	s.point(p)
	if p.completed {
		return st.chosen, st.val, st.ok
	}
	for _, f := range st.cleanup {
		f()
	}
	var ready []int
	for i, k := range cases {
		if k.ready() {
			ready = append(ready, i)
		}
	}
	if len(ready) == 0 {
		return -1, nil, false
	}
	pick := 0
	if len(ready) > 1 {
		pick = s.decide(len(ready), false, false)
		if pick < 0 {
			<-s.running.wake
			runtime.Goexit()
		}
	}
	i := ready[pick]
	v, ok := cases[i].exec()
	return i, v, ok
}
