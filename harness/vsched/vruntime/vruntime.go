// Package runtime (import path verif/vsched/vruntime) replaces runtime in instrumented files.
package runtime

import (
	stdruntime "runtime"

	"verif/vsched"
)

func NumCPU() int { return vsched.NumCPU() }

func GOMAXPROCS(n int) int {
	if vsched.Active() {
		return vsched.NumCPU()
	}
	return stdruntime.GOMAXPROCS(n)
}

func Gosched() {
	if vsched.Active() {
		vsched.Yield("gosched")
		return
	}
	stdruntime.Gosched()
}

func NumGoroutine() int { return stdruntime.NumGoroutine() }
func GC()               { stdruntime.GC() }
func Goexit()           { stdruntime.Goexit() }

const (
	GOOS   = stdruntime.GOOS
	GOARCH = stdruntime.GOARCH
)
