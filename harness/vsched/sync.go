package vsched

import (
	"sync"
	"sync/atomic"
)

func active() *sched {
	s := cur
	if s == nil || s.finished {
		return nil
	}
	return s
}

// WaitGroup is the controlled replacement of sync.WaitGroup (zero value usable).
type WaitGroup struct {
	id    int
	owner *sched
	n     int
	real  sync.WaitGroup
}

func (w *WaitGroup) stateHash() uint64 { return uint64(w.id)<<32 | uint64(uint32(w.n)) }

func (w *WaitGroup) reg(s *sched) {
	if w.owner != s { // fresh, or a package-level object left over from an earlier execution
		w.owner, w.n = s, 0
		w.id = s.newObj(w)
	}
}

func (w *WaitGroup) Add(d int) {
	s := active()
	if s == nil {
		w.real.Add(d)
		return
	}
	w.reg(s)
	s.point(&pendingOp{kind: opWgAdd, obj: w.id})
	w.n += d
	if w.n < 0 {
		panic("sync: negative WaitGroup counter")
	}
}

func (w *WaitGroup) Done() { w.Add(-1) }

func (w *WaitGroup) Wait() {
	s := active()
	if s == nil {
		w.real.Wait()
		return
	}
	w.reg(s)
	s.point(&pendingOp{kind: opWgWait, obj: w.id, enabled: func() bool { return w.n == 0 }})
}

// Go mirrors sync.WaitGroup.Go (Go 1.25+), harmless to offer.
func (w *WaitGroup) Go(f func()) {
	w.Add(1)
	Go(func() {
		defer w.Done()
		f()
	})
}

// Mutex is the controlled replacement of sync.Mutex.
type Mutex struct {
	id     int
	owner  *sched
	locked bool
	real   sync.Mutex
}

func (m *Mutex) stateHash() uint64 {
	v := uint64(m.id) << 32
	if m.locked {
		v |= 1
	}
	return v
}

func (m *Mutex) reg(s *sched) {
	if m.owner != s {
		m.owner, m.locked = s, false
		m.id = s.newObj(m)
	}
}

func (m *Mutex) Lock() {
	s := active()
	if s == nil {
		m.real.Lock()
		return
	}
	m.reg(s)
	s.point(&pendingOp{kind: opLock, obj: m.id, enabled: func() bool { return !m.locked }})
	m.locked = true
}

func (m *Mutex) TryLock() bool {
	s := active()
	if s == nil {
		return m.real.TryLock()
	}
	m.reg(s)
	s.point(&pendingOp{kind: opLock, obj: m.id})
	if m.locked {
		return false
	}
	m.locked = true
	return true
}

func (m *Mutex) Unlock() {
	s := active()
	if s == nil {
		m.real.Unlock()
		return
	}
	m.reg(s)
	s.point(&pendingOp{kind: opUnlock, obj: m.id})
	if !m.locked {
		panic("sync: unlock of unlocked mutex")
	}
	m.locked = false
}

// RWMutex is the controlled replacement of sync.RWMutex (writer preference is not modelled:
// any enabled locker may win, a superset of the runtime's behaviours for terminating code).
type RWMutex struct {
	id      int
	owner   *sched
	writer  bool
	readers int
	real    sync.RWMutex
}

func (m *RWMutex) stateHash() uint64 {
	v := uint64(m.id)<<32 | uint64(m.readers)<<1
	if m.writer {
		v |= 1
	}
	return v
}

func (m *RWMutex) reg(s *sched) {
	if m.owner != s {
		m.owner, m.writer, m.readers = s, false, 0
		m.id = s.newObj(m)
	}
}

func (m *RWMutex) Lock() {
	s := active()
	if s == nil {
		m.real.Lock()
		return
	}
	m.reg(s)
	s.point(&pendingOp{kind: opLock, obj: m.id, enabled: func() bool { return !m.writer && m.readers == 0 }})
	m.writer = true
}

func (m *RWMutex) Unlock() {
	s := active()
	if s == nil {
		m.real.Unlock()
		return
	}
	m.reg(s)
	s.point(&pendingOp{kind: opUnlock, obj: m.id})
	if !m.writer {
		panic("sync: Unlock of unlocked RWMutex")
	}
	m.writer = false
}

func (m *RWMutex) RLock() {
	s := active()
	if s == nil {
		m.real.RLock()
		return
	}
	m.reg(s)
	s.point(&pendingOp{kind: opRLock, obj: m.id, enabled: func() bool { return !m.writer }})
	m.readers++
}

func (m *RWMutex) RUnlock() {
	s := active()
	if s == nil {
		m.real.RUnlock()
		return
	}
	m.reg(s)
	s.point(&pendingOp{kind: opRUnlock, obj: m.id})
	if m.readers <= 0 {
		panic("sync: RUnlock of unlocked RWMutex")
	}
	m.readers--
}

func (m *RWMutex) RLocker() sync.Locker { return (*rlocker)(m) }

type rlocker RWMutex

func (r *rlocker) Lock()   { (*RWMutex)(r).RLock() }
func (r *rlocker) Unlock() { (*RWMutex)(r).RUnlock() }

// Once is the controlled replacement of sync.Once.
type Once struct {
	id    int
	owner *sched
	state int // 0 fresh, 1 running, 2 done
	real  sync.Once
	// spawned: the function started goroutines when it ran inside a controlled execution. Those goroutines end with
	// that execution, so the next execution runs the function again (as the first call in a fresh process would):
	// a helper pool built on first use is rebuilt for every execution instead of being left without helpers.
	spawned bool
}

func (o *Once) stateHash() uint64 { return uint64(o.id)<<32 | uint64(o.state) }

func (o *Once) Do(f func()) {
	s := active()
	if s == nil {
		o.real.Do(f)
		return
	}
	if o.owner != s {
		// a package-level Once keeps its "done" state across executions (as it would across calls),
		// but an execution aborted while inside f must not leave it stuck in "running"
		o.owner = s
		if o.state == 1 || (o.state == 2 && o.spawned) {
			o.state = 0
		}
		o.spawned = false
		o.id = s.newObj(o)
	}
	s.point(&pendingOp{kind: opOnce, obj: o.id, enabled: func() bool { return o.state != 1 }})
	if o.state == 2 {
		return
	}
	o.state = 1
	t := s.running
	outer := t != nil && t.inOnce == nil
	if outer {
		t.inOnce = o
	}
	defer func() {
		o.state = 2
		if outer {
			t.inOnce = nil
		}
	}()
	f()
}

// ---- atomics: a scheduling point, then the real operation ----

func atomicPoint() {
	if s := active(); s != nil {
		s.point(&pendingOp{kind: opAtomic})
	}
}

func AddInt32(p *int32, d int32) int32     { atomicPoint(); return atomic.AddInt32(p, d) }
func AddInt64(p *int64, d int64) int64     { atomicPoint(); return atomic.AddInt64(p, d) }
func AddUint32(p *uint32, d uint32) uint32 { atomicPoint(); return atomic.AddUint32(p, d) }
func AddUint64(p *uint64, d uint64) uint64 { atomicPoint(); return atomic.AddUint64(p, d) }
func LoadInt32(p *int32) int32             { atomicPoint(); return atomic.LoadInt32(p) }
func LoadInt64(p *int64) int64             { atomicPoint(); return atomic.LoadInt64(p) }
func LoadUint32(p *uint32) uint32          { atomicPoint(); return atomic.LoadUint32(p) }
func LoadUint64(p *uint64) uint64          { atomicPoint(); return atomic.LoadUint64(p) }
func StoreInt32(p *int32, v int32)         { atomicPoint(); atomic.StoreInt32(p, v) }
func StoreInt64(p *int64, v int64)         { atomicPoint(); atomic.StoreInt64(p, v) }
func StoreUint32(p *uint32, v uint32)      { atomicPoint(); atomic.StoreUint32(p, v) }
func StoreUint64(p *uint64, v uint64)      { atomicPoint(); atomic.StoreUint64(p, v) }
func SwapInt32(p *int32, v int32) int32    { atomicPoint(); return atomic.SwapInt32(p, v) }
func SwapInt64(p *int64, v int64) int64    { atomicPoint(); return atomic.SwapInt64(p, v) }
func CompareAndSwapInt32(p *int32, o, n int32) bool {
	atomicPoint()
	return atomic.CompareAndSwapInt32(p, o, n)
}
func CompareAndSwapInt64(p *int64, o, n int64) bool {
	atomicPoint()
	return atomic.CompareAndSwapInt64(p, o, n)
}
func CompareAndSwapUint32(p *uint32, o, n uint32) bool {
	atomicPoint()
	return atomic.CompareAndSwapUint32(p, o, n)
}
func CompareAndSwapUint64(p *uint64, o, n uint64) bool {
	atomicPoint()
	return atomic.CompareAndSwapUint64(p, o, n)
}

// Typed atomics (Go 1.19+).
type Int32 struct{ v int32 }

func (x *Int32) Load() int32                    { return LoadInt32(&x.v) }
func (x *Int32) Store(v int32)                  { StoreInt32(&x.v, v) }
func (x *Int32) Add(d int32) int32              { return AddInt32(&x.v, d) }
func (x *Int32) Swap(v int32) int32             { return SwapInt32(&x.v, v) }
func (x *Int32) CompareAndSwap(o, n int32) bool { return CompareAndSwapInt32(&x.v, o, n) }

type Int64 struct{ v int64 }

func (x *Int64) Load() int64                    { return LoadInt64(&x.v) }
func (x *Int64) Store(v int64)                  { StoreInt64(&x.v, v) }
func (x *Int64) Add(d int64) int64              { return AddInt64(&x.v, d) }
func (x *Int64) Swap(v int64) int64             { return SwapInt64(&x.v, v) }
func (x *Int64) CompareAndSwap(o, n int64) bool { return CompareAndSwapInt64(&x.v, o, n) }

type Bool struct{ v int32 }

func (x *Bool) Load() bool { return LoadInt32(&x.v) != 0 }
func (x *Bool) Store(b bool) {
	if b {
		StoreInt32(&x.v, 1)
	} else {
		StoreInt32(&x.v, 0)
	}
}

// Value is the controlled replacement of atomic.Value: every operation is a scheduling point.
type Value struct{ v atomic.Value }

func (x *Value) Load() interface{}   { atomicPoint(); return x.v.Load() }
func (x *Value) Store(v interface{}) { atomicPoint(); x.v.Store(v) }
func (x *Value) Swap(v interface{}) interface{} {
	atomicPoint()
	return x.v.Swap(v)
}
func (x *Value) CompareAndSwap(o, n interface{}) bool {
	atomicPoint()
	return x.v.CompareAndSwap(o, n)
}

type Uint32 struct{ v uint32 }

func (x *Uint32) Load() uint32                    { return LoadUint32(&x.v) }
func (x *Uint32) Store(v uint32)                  { StoreUint32(&x.v, v) }
func (x *Uint32) Add(d uint32) uint32             { return AddUint32(&x.v, d) }
func (x *Uint32) CompareAndSwap(o, n uint32) bool { return CompareAndSwapUint32(&x.v, o, n) }

type Uint64 struct{ v uint64 }

func (x *Uint64) Load() uint64                    { return LoadUint64(&x.v) }
func (x *Uint64) Store(v uint64)                  { StoreUint64(&x.v, v) }
func (x *Uint64) Add(d uint64) uint64             { return AddUint64(&x.v, d) }
func (x *Uint64) CompareAndSwap(o, n uint64) bool { return CompareAndSwapUint64(&x.v, o, n) }

// Pool is the controlled replacement of sync.Pool. The runtime may drop pooled items at any garbage collection
// and keeps per-P caches, so what Get returns depends on timing; inside a controlled execution the pool is a
// plain LIFO list that starts empty in every execution (a fresh process), which keeps executions replayable.
// Outside executions it is the real sync.Pool.
type Pool struct {
	New   func() interface{}
	real  sync.Pool
	owner *sched
	items []interface{}
}

func (p *Pool) Get() interface{} {
	s := active()
	if s == nil {
		if v := p.real.Get(); v != nil {
			return v
		}
		if p.New != nil {
			return p.New()
		}
		return nil
	}
	if p.owner != s {
		p.owner, p.items = s, nil
	}
	s.point(&pendingOp{kind: opAtomic, label: "pool get"})
	if n := len(p.items); n > 0 {
		v := p.items[n-1]
		p.items = p.items[:n-1]
		return v
	}
	if p.New != nil {
		return p.New()
	}
	return nil
}

func (p *Pool) Put(v interface{}) {
	s := active()
	if s == nil {
		p.real.Put(v)
		return
	}
	if p.owner != s {
		p.owner, p.items = s, nil
	}
	s.point(&pendingOp{kind: opAtomic, label: "pool put"})
	p.items = append(p.items, v)
}
