// Package sync (import path verif/vsched/vsync) replaces the standard sync package in
// instrumented files: the import path is rewritten, the identifiers stay.
package sync

import (
	stdsync "sync"

	"verif/vsched"
)

type (
	WaitGroup = vsched.WaitGroup
	Mutex     = vsched.Mutex
	RWMutex   = vsched.RWMutex
	Once      = vsched.Once
	Locker    = stdsync.Locker
	Pool      = vsched.Pool
	Map       = stdsync.Map
)
