package vsched

import (
	"time"
)

// Timers of the code under test (time.NewTicker, NewTimer, After, Tick, AfterFunc; instrumented files import
// verif/vsched/vtime instead of time). Inside a controlled execution a timer is a daemon thread of the scheduler:
//
//   - it is ordered behind every other enabled thread under every default policy, so by default time only passes
//     when nothing else can run ("the timer fires when the system is quiescent");
//   - a timer of at most ShortTimer may also fire while other threads could run - a descheduled goroutine can lose
//     that much time under load - which is a non-default scheduling decision and costs one deviation; a longer
//     timer (a watchdog of minutes) fires only at quiescence, so a generous timeout is never reported as firing;
//   - a tick is delivered into a channel of capacity 1 and dropped if the previous one was not consumed (as the
//     runtime does); a timer thread never counts as deadlocked or leaked.
//
// Outside executions the real timers are used.
const ShortTimer = 10 * time.Second

// Ticker mirrors time.Ticker.
type Ticker struct {
	C    *Chan[time.Time]
	d    time.Duration
	real *time.Ticker
	stop bool
	n    int64
}

// Timer mirrors time.Timer.
type Timer struct {
	C     *Chan[time.Time]
	d     time.Duration
	real  *time.Timer
	fired bool
	stop  bool
	f     func()
	gen   int
}

var timeBase = time.Date(2021, 1, 1, 0, 0, 0, 0, time.UTC)

func forward(src <-chan time.Time) *Chan[time.Time] {
	c := &Chan[time.Time]{cap: 1, real: make(chan time.Time, 1)}
	go func() {
		for t := range src {
			select {
			case c.real <- t:
			default:
			}
		}
	}()
	return c
}

func NewTicker(d time.Duration) *Ticker {
	if d <= 0 {
		panic("non-positive interval for NewTicker")
	}
	s := active()
	if s == nil {
		rt := time.NewTicker(d)
		return &Ticker{C: forward(rt.C), d: d, real: rt}
	}
	tk := &Ticker{C: NewChan[time.Time](1), d: d}
	s.point(&pendingOp{kind: opSpawn})
	t := s.newThread(func() {
		for {
			s.point(&pendingOp{kind: opTimer, obj: tk.C.id, enabled: func() bool { return tk.stop || len(tk.C.buf) == 0 }})
			if tk.stop {
				return
			}
			tk.n++
			tk.C.buf = append(tk.C.buf, timeBase.Add(time.Duration(tk.n)*tk.d))
		}
	})
	t.timer, t.longTimer = true, d > ShortTimer
	s.hasTimers = true
	return tk
}

func (tk *Ticker) Stop() {
	if tk.real != nil {
		tk.real.Stop()
		return
	}
	if s := active(); s != nil {
		s.point(&pendingOp{kind: opAtomic})
	}
	tk.stop = true
}

func (tk *Ticker) Reset(d time.Duration) {
	if tk.real != nil {
		tk.real.Reset(d)
		return
	}
	tk.d = d
}

func Tick(d time.Duration) *Chan[time.Time] {
	if d <= 0 {
		return nil
	}
	return NewTicker(d).C
}

func newTimer(d time.Duration, f func()) *Timer {
	s := active()
	if s == nil {
		if f != nil {
			return &Timer{d: d, real: time.AfterFunc(d, f), f: f}
		}
		rt := time.NewTimer(d)
		return &Timer{C: forward(rt.C), d: d, real: rt}
	}
	tm := &Timer{d: d, f: f}
	if f == nil {
		tm.C = NewChan[time.Time](1)
	}
	tm.arm(s)
	return tm
}

func (tm *Timer) arm(s *sched) {
	tm.gen++
	gen := tm.gen
	tm.fired, tm.stop = false, false
	s.point(&pendingOp{kind: opSpawn})
	var t *thread
	t = s.newThread(func() {
		s.point(&pendingOp{kind: opTimer, enabled: func() bool { return true }})
		if tm.stop || tm.gen != gen {
			return
		}
		tm.fired = true
		if tm.f != nil {
			t.timer = false // from here on an ordinary goroutine running the callback
			tm.f()
			return
		}
		if len(tm.C.buf) == 0 {
			tm.C.buf = append(tm.C.buf, timeBase.Add(tm.d))
		}
	})
	t.timer, t.longTimer = true, tm.d > ShortTimer
	s.hasTimers = true
}

func NewTimer(d time.Duration) *Timer            { return newTimer(d, nil) }
func AfterFunc(d time.Duration, f func()) *Timer { return newTimer(d, f) }
func After(d time.Duration) *Chan[time.Time]     { return newTimer(d, nil).C }

// Stop reports whether the call stops the timer before it fired.
func (tm *Timer) Stop() bool {
	if tm.real != nil {
		return tm.real.Stop()
	}
	if s := active(); s != nil {
		s.point(&pendingOp{kind: opAtomic})
	}
	was := !tm.fired && !tm.stop
	tm.stop = true
	return was
}

func (tm *Timer) Reset(d time.Duration) bool {
	if tm.real != nil {
		return tm.real.Reset(d)
	}
	was := !tm.fired && !tm.stop
	tm.d = d
	if s := active(); s != nil {
		tm.stop = true
		tm.arm(s)
	}
	return was
}
