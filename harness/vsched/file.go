package vsched

import (
	"io"
	"os"
	"runtime"
	"time"
)

// File wraps *os.File so that every externally visible file operation is a scheduling point.
type File struct {
	f    *os.File
	name string
}

func wrapFile(f *os.File, err error, name string) (*File, error) {
	if err != nil {
		return nil, err
	}
	return &File{f: f, name: name}, nil
}

func OpenFile(name string, flag int, perm os.FileMode) (*File, error) {
	Yield("open " + name)
	f, err := os.OpenFile(name, flag, perm)
	return wrapFile(f, err, name)
}

func Create(name string) (*File, error) {
	Yield("create " + name)
	f, err := os.Create(name)
	return wrapFile(f, err, name)
}

func WriteFile(name string, data []byte, perm os.FileMode) error {
	Yield("writefile " + name)
	return os.WriteFile(name, data, perm)
}

func MkdirAll(path string, perm os.FileMode) error {
	Yield("mkdirall " + path)
	return os.MkdirAll(path, perm)
}

func Mkdir(path string, perm os.FileMode) error {
	Yield("mkdir " + path)
	return os.Mkdir(path, perm)
}

func (f *File) Write(p []byte) (int, error) {
	if f == nil {
		return 0, os.ErrInvalid
	}
	Yield("write " + f.name)
	return f.f.Write(p)
}

func (f *File) WriteString(s string) (int, error) {
	if f == nil {
		return 0, os.ErrInvalid
	}
	Yield("write " + f.name)
	return f.f.WriteString(s)
}

func (f *File) WriteAt(p []byte, off int64) (int, error) {
	if f == nil {
		return 0, os.ErrInvalid
	}
	Yield("write " + f.name)
	return f.f.WriteAt(p, off)
}

func (f *File) ReadFrom(r io.Reader) (int64, error) {
	if f == nil {
		return 0, os.ErrInvalid
	}
	Yield("write " + f.name)
	return f.f.ReadFrom(r)
}

func (f *File) Read(p []byte) (int, error) {
	if f == nil {
		return 0, os.ErrInvalid
	}
	return f.f.Read(p)
}

func (f *File) Close() error {
	if f == nil {
		return os.ErrInvalid
	}
	Yield("close " + f.name)
	return f.f.Close()
}

func (f *File) Sync() error {
	if f == nil {
		return os.ErrInvalid
	}
	Yield("sync " + f.name)
	return f.f.Sync()
}

func (f *File) Name() string {
	if f == nil {
		return ""
	}
	return f.name
}

func (f *File) Stat() (os.FileInfo, error) {
	if f == nil {
		return nil, os.ErrInvalid
	}
	return f.f.Stat()
}

func (f *File) Seek(off int64, whence int) (int64, error) {
	if f == nil {
		return 0, os.ErrInvalid
	}
	return f.f.Seek(off, whence)
}

func (f *File) Truncate(n int64) error {
	if f == nil {
		return os.ErrInvalid
	}
	Yield("truncate " + f.name)
	return f.f.Truncate(n)
}

func (f *File) Fd() uintptr { return f.f.Fd() }

// Exit models os.Exit: the execution ends at once, other threads are discarded.
func Exit(code int) {
	s := active()
	if s == nil {
		os.Exit(code)
	}
	s.x.ExitCode = code
	s.x.Exited = true
	s.x.Outcome = OutExit
	s.end()
	<-s.running.wake
	runtime.Goexit()
}

// Sleep is a scheduling point; no real time passes.
func Sleep(d time.Duration) {
	if active() == nil {
		time.Sleep(d)
		return
	}
	Yield("sleep")
}
