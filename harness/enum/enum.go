// Package enum holds the bounded-exhaustive input generators and the comparison plumbing of the E2 checks.
package enum

import (
	"fmt"
	"math"
	"sync"
	"sync/atomic"

	"verif/common"
)

// BitsOf writes the n low bits of v (most significant first) into dst.
func BitsOf(v uint64, n int, dst []bool) []bool {
	dst = dst[:0]
	for i := n - 1; i >= 0; i-- {
		dst = append(dst, v>>uint(i)&1 == 1)
	}
	return dst
}

// AllStrings calls f for every bit string of length n, in parallel chunks. f gets a private buffer.
func AllStrings(n int, f func(bits []bool, v uint64)) {
	total := uint64(1) << uint(n)
	chunk := uint64(1) << 10
	if total < chunk {
		chunk = total
	}
	nchunks := int(total / chunk)
	common.ParFor(nchunks, func(c int) {
		buf := make([]bool, 0, n)
		for v := uint64(c) * chunk; v < uint64(c+1)*chunk; v++ {
			buf = BitsOf(v, n, buf)
			f(buf, v)
		}
	})
}

// Repeat builds a sequence of n bits by repeating pattern.
func Repeat(pattern []bool, n int) []bool {
	out := make([]bool, n)
	for i := range out {
		out[i] = pattern[i%len(pattern)]
	}
	return out
}

// BasePatterns returns every bit pattern of length 1..maxLen.
func BasePatterns(maxLen int) [][]bool {
	var out [][]bool
	for l := 1; l <= maxLen; l++ {
		for v := uint64(0); v < 1<<uint(l); v++ {
			out = append(out, BitsOf(v, l, nil))
		}
	}
	return out
}

// Filler is a fixed xorshift bit stream.
func Filler(n int, seed uint64) []bool {
	x := seed*0x9E3779B97F4A7C15 + 0x632BE59BD9B4E019
	out := make([]bool, n)
	for i := 0; i < n; i += 64 {
		x ^= x << 13
		x ^= x >> 7
		x ^= x << 17
		for j := 0; j < 64 && i+j < n; j++ {
			out[i+j] = x>>uint(j)&1 == 1
		}
	}
	return out
}

// FillerBytes is a fixed xorshift byte stream.
func FillerBytes(n int, seed uint64) []byte {
	x := seed*0x9E3779B97F4A7C15 + 0x632BE59BD9B4E019
	out := make([]byte, n)
	for i := range out {
		x ^= x << 13
		x ^= x >> 7
		x ^= x << 17
		out[i] = byte(x >> 29)
	}
	return out
}

// CriticalPositions: 0, 1, middle, n-2, n-1 and around each multiple of step (if step > 0), deduplicated, within [0,n).
func CriticalPositions(n int, steps ...int) []int {
	seen := map[int]bool{}
	var out []int
	add := func(p int) {
		if p >= 0 && p < n && !seen[p] {
			seen[p] = true
			out = append(out, p)
		}
	}
	for _, p := range []int{0, 1, n / 2, n - 2, n - 1} {
		add(p)
	}
	for _, s := range steps {
		if s <= 1 || n/s > 64 {
			// only the first, a middle and the last boundary for very many blocks
			if s > 1 {
				for _, b := range []int{s, (n / s / 2) * s, (n / s) * s} {
					add(b - 1)
					add(b)
					add(b + 1)
				}
			}
			continue
		}
		for b := s; b <= n; b += s {
			add(b - 1)
			add(b)
			add(b + 1)
		}
	}
	return out
}

// DistinctSet counts distinct 64-bit keys approximately from below (a 2^27-bit set; collisions only undercount).
type DistinctSet struct {
	bits []uint64
}

func NewDistinctSet() *DistinctSet { return &DistinctSet{bits: make([]uint64, 1<<21)} }

func (d *DistinctSet) Add(k uint64) {
	k ^= k >> 33
	k *= 0xff51afd7ed558ccd
	k ^= k >> 33
	i := k & (1<<27 - 1)
	w, b := i>>6, uint64(1)<<(i&63)
	for {
		old := atomic.LoadUint64(&d.bits[w])
		if old&b != 0 || atomic.CompareAndSwapUint64(&d.bits[w], old, old|b) {
			return
		}
	}
}

func (d *DistinctSet) Count() int {
	n := 0
	for _, w := range d.bits {
		for ; w != 0; w &= w - 1 {
			n++
		}
	}
	return n
}

// Cmp collects comparisons of implementation results with oracle results.
type Cmp struct {
	Ctx      *common.Ctx
	Tol      float64
	Evals    int64
	Distinct *DistinctSet
	mu       sync.Mutex
	perCall  map[string]int64
	samples  []interface{}
	MaxDiff  float64
}

func NewCmp(ctx *common.Ctx, tol float64) *Cmp {
	return &Cmp{Ctx: ctx, Tol: tol, Distinct: NewDistinctSet(), perCall: map[string]int64{}}
}

func callHash(s string) uint64 {
	h := uint64(14695981039346656037)
	for i := 0; i < len(s); i++ {
		h ^= uint64(s[i])
		h *= 1099511628211
	}
	return h
}

// Count adds n evaluations of call (bulk accounting, cheap).
func (c *Cmp) Count(call string, n int64) {
	atomic.AddInt64(&c.Evals, n)
	c.mu.Lock()
	c.perCall[call] += n
	c.mu.Unlock()
}

// PQ compares one (P,Q) pair. input is only rendered on a mismatch.
// It returns false on a mismatch. Accounting of evaluations is done by the caller through Count.
func (c *Cmp) PQ(call string, h uint64, gotP, gotQ, wantP, wantQ float64, input func() interface{}) bool {
	if wantP > 0 && wantP < 1 {
		c.Distinct.Add(h ^ math.Float64bits(wantP))
	}
	dp, dq := math.Abs(gotP-wantP), math.Abs(gotQ-wantQ)
	if dp <= c.Tol && dq <= c.Tol {
		return true
	}
	// NaN on either side, or a real difference
	if !(math.IsNaN(gotP) || math.IsNaN(gotQ) || math.IsNaN(wantP) || math.IsNaN(wantQ)) {
		c.mu.Lock()
		if dp > c.MaxDiff {
			c.MaxDiff = dp
		}
		c.mu.Unlock()
	}
	c.Ctx.Report(call+"/value", fmt.Sprintf("%s returned P=%.12g Q=%.12g, the standard's definition gives P=%.12g Q=%.12g (|dP|=%.3g |dQ|=%.3g)", call, gotP, gotQ, wantP, wantQ, dp, dq),
		map[string]interface{}{"call": call, "input": input(), "got": []float64{gotP, gotQ}, "want": []float64{wantP, wantQ}})
	return false
}

// Within reports whether both components agree within Tol+extra.
func (c *Cmp) Within(gotP, gotQ, wantP, wantQ, extra float64) bool {
	return math.Abs(gotP-wantP) <= c.Tol+extra && math.Abs(gotQ-wantQ) <= c.Tol+extra
}

// NoteSlack counts comparisons that were accepted only through a call's conditioning slack.
func (c *Cmp) NoteSlack(call string) {
	c.mu.Lock()
	c.perCall["accepted through conditioning slack: "+call]++
	c.mu.Unlock()
}

// Panic reports a crash of call.
func (c *Cmp) Panic(call string, pv interface{}, input interface{}) {
	c.Ctx.Report(call+"/panic", fmt.Sprintf("%s panicked: %v", call, pv), map[string]interface{}{"call": call, "input": input, "panic": fmt.Sprint(pv)})
}

// Sample keeps a few written-out cases for the evidence file.
func (c *Cmp) Sample(v interface{}) {
	c.mu.Lock()
	if len(c.samples) < 8 {
		c.samples = append(c.samples, v)
	}
	c.mu.Unlock()
}

func (c *Cmp) Samples() []interface{} {
	c.mu.Lock()
	defer c.mu.Unlock()
	return append([]interface{}{}, c.samples...)
}

func (c *Cmp) PerCall() map[string]int64 {
	c.mu.Lock()
	defer c.mu.Unlock()
	out := map[string]int64{}
	for k, v := range c.perCall {
		out[k] = v
	}
	return out
}

// Coverage builds the exploration-level coverage object.
func (c *Cmp) Coverage(rule string, exhaustive bool, extra common.Coverage) common.Coverage {
	cov := common.Coverage{
		"evaluations":          int(atomic.LoadInt64(&c.Evals)),
		"distinct_nontrivial":  c.Distinct.Count(),
		"rule":                 rule,
		"samples":              c.Samples(),
		"evaluations_per_call": c.PerCall(),
		"exhaustive":           exhaustive,
		"tolerance":            c.Tol,
	}
	for k, v := range extra {
		cov[k] = v
	}
	return cov
}
