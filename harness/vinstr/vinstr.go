// Package vinstr rewrites Go source files so that their synchronisation operations go through
// verif/vsched.  It works on the files of /repo's *current working tree* at check time; the
// rewritten copies are substituted with `go build -overlay`, /repo itself is never written.
package vinstr

import (
	"bytes"
	"fmt"
	"go/ast"
	"go/format"
	"go/importer"
	"go/parser"
	"go/token"
	"go/types"
	"os"
	"path/filepath"
	"sort"
	"strconv"
	"strings"
)

// Options of one instrumentation run.
type Options struct {
	Dir        string   // package directory (inside /repo)
	Files      []string // base names to instrument (others are only type-checked)
	OutDir     string   // where rewritten copies go
	RenameMain string   // if non-empty, `func main()` is renamed to this
	FileOps    bool     // rewrite os.OpenFile / os.Create / os.WriteFile / ioutil.WriteFile / os.MkdirAll to vsched wrappers
	TouchVars  bool     // insert vsched.Touch before statements that mention package-level variables
	ExtraFiles map[string]string
}

// Result describes what was done.
type Result struct {
	Overlay   map[string]string // original path -> rewritten path
	Counts    map[string]int    // construct -> number of rewrites
	Unsupport []string          // constructs met that are not modelled
	TypeErrs  []string
	PkgVars   []string // package-level variables discovered
}

const vpath = "verif/vsched"

type rewriter struct {
	fset      *token.FileSet
	info      *types.Info
	pkg       *types.Package
	res       *Result
	opt       Options
	tmpN      int
	siteN     int
	siteBase  int
	needVS    bool
	pkgVars   map[types.Object]bool
	tainted   map[types.Object]bool // locals that alias package-level state (per function)
	sharedRet map[types.Object]bool // functions of the package whose result may alias package-level state
}

func (r *rewriter) count(k string) { r.res.Counts[k]++ }

// Instrument parses, type-checks and rewrites.
func Instrument(opt Options) (*Result, error) {
	res := &Result{Overlay: map[string]string{}, Counts: map[string]int{}}
	fset := token.NewFileSet()
	ents, err := os.ReadDir(opt.Dir)
	if err != nil {
		return nil, err
	}
	var files []*ast.File
	var names []string
	for _, e := range ents {
		n := e.Name()
		if !strings.HasSuffix(n, ".go") || strings.HasSuffix(n, "_test.go") {
			continue
		}
		f, err := parser.ParseFile(fset, filepath.Join(opt.Dir, n), nil, parser.ParseComments)
		if err != nil {
			return nil, fmt.Errorf("parse %s: %v", n, err)
		}
		files = append(files, f)
		names = append(names, n)
	}
	info := &types.Info{Types: map[ast.Expr]types.TypeAndValue{}, Uses: map[*ast.Ident]types.Object{}, Defs: map[*ast.Ident]types.Object{}}
	conf := types.Config{Importer: importer.ForCompiler(fset, "source", nil), Error: func(err error) {
		res.TypeErrs = append(res.TypeErrs, err.Error())
	}}
	pkg, _ := conf.Check(opt.Dir, fset, files, info)
	rw := &rewriter{fset: fset, info: info, pkg: pkg, res: res, opt: opt, pkgVars: map[types.Object]bool{}}
	for _, c := range opt.Dir {
		rw.siteBase = (rw.siteBase*31 + int(c)) % 1000
	}
	rw.siteBase *= 100000
	if pkg != nil {
		sc := pkg.Scope()
		for _, n := range sc.Names() {
			if v, ok := sc.Lookup(n).(*types.Var); ok {
				rw.pkgVars[v] = true
				res.PkgVars = append(res.PkgVars, n)
			}
		}
	}
	if opt.TouchVars {
		rw.computeSharedReturning(files)
	}
	want := map[string]bool{}
	for _, f := range opt.Files {
		want[f] = true
	}
	if err := os.MkdirAll(opt.OutDir, 0o755); err != nil {
		return nil, err
	}
	for i, f := range files {
		if len(want) > 0 && !want[names[i]] {
			continue
		}
		rw.needVS = false
		rw.file(f)
		var buf bytes.Buffer
		buf.WriteString("//go:build go1.18\n\n")
		if err := format.Node(&buf, fset, f); err != nil {
			return nil, fmt.Errorf("print %s: %v", names[i], err)
		}
		out := filepath.Join(opt.OutDir, "instr_"+names[i])
		if err := os.WriteFile(out, buf.Bytes(), 0o644); err != nil {
			return nil, err
		}
		res.Overlay[filepath.Join(opt.Dir, names[i])] = out
	}
	for n, src := range opt.ExtraFiles {
		out := filepath.Join(opt.OutDir, "extra_"+n)
		if err := os.WriteFile(out, []byte(src), 0o644); err != nil {
			return nil, err
		}
		res.Overlay[filepath.Join(opt.Dir, n)] = out
	}
	sort.Strings(res.Unsupport)
	return res, nil
}

func sel(x, s string) ast.Expr { return &ast.SelectorExpr{X: ast.NewIdent(x), Sel: ast.NewIdent(s)} }

func (r *rewriter) isChan(e ast.Expr) bool {
	if tv, ok := r.info.Types[e]; ok && tv.Type != nil {
		_, is := tv.Type.Underlying().(*types.Chan)
		return is
	}
	return false
}

// foreignChan: the expression is a call into a package outside the module under test, so the channel
// it yields is a real one.
func (r *rewriter) foreignChan(e ast.Expr) bool {
	call, ok := unparen(e).(*ast.CallExpr)
	if !ok {
		return false
	}
	var id *ast.Ident
	switch f := call.Fun.(type) {
	case *ast.SelectorExpr:
		id = f.Sel
	case *ast.Ident:
		id = f
	}
	if id == nil {
		return false
	}
	o := r.info.Uses[id]
	fn, ok := o.(*types.Func)
	if !ok || fn.Pkg() == nil {
		return false
	}
	if fn.Pkg().Path() == "time" {
		return false // the time package is replaced by vtime: its channels are modelled ones
	}
	return !strings.HasPrefix(fn.Pkg().Path(), "github.com/Trisia/randomness") && !strings.HasPrefix(fn.Pkg().Path(), "verif/")
}

func (r *rewriter) typeKnown(e ast.Expr) bool {
	tv, ok := r.info.Types[e]
	return ok && tv.Type != nil && tv.Type != types.Typ[types.Invalid]
}

// import path rewriting: sync -> vsync etc.
var importMap = map[string]string{
	"sync":        "verif/vsched/vsync",
	"sync/atomic": "verif/vsched/vatomic",
	"runtime":     "verif/vsched/vruntime",
	"time":        "verif/vsched/vtime",
}

func (r *rewriter) file(f *ast.File) {
	// strip build constraints of the original (we add our own)
	for _, cg := range f.Comments {
		for _, c := range cg.List {
			if strings.HasPrefix(c.Text, "//go:build") || strings.HasPrefix(c.Text, "// +build") {
				c.Text = "// (build constraint removed by vinstr)"
			}
		}
	}
	for _, im := range f.Imports {
		p, _ := strconv.Unquote(im.Path.Value)
		if np, ok := importMap[p]; ok {
			if im.Name == nil {
				base := p[strings.LastIndex(p, "/")+1:]
				im.Name = ast.NewIdent(base)
			}
			im.Path.Value = strconv.Quote(np)
			r.count("import " + p)
		}
	}
	if r.opt.RenameMain != "" {
		for _, d := range f.Decls {
			if fd, ok := d.(*ast.FuncDecl); ok && fd.Recv == nil && fd.Name.Name == "main" {
				fd.Name.Name = r.opt.RenameMain
				r.count("rename main")
			}
		}
	}
	for _, d := range f.Decls {
		r.node(d)
	}
	if r.needVS {
		addImport(f, "vsched", vpath)
	}
}

func addImport(f *ast.File, name, path string) {
	spec := &ast.ImportSpec{Name: ast.NewIdent(name), Path: &ast.BasicLit{Kind: token.STRING, Value: strconv.Quote(path)}}
	gd := &ast.GenDecl{Tok: token.IMPORT, Specs: []ast.Spec{spec}}
	// imports must come first
	f.Decls = append([]ast.Decl{gd}, f.Decls...)
	f.Imports = append(f.Imports, spec)
}

// node rewrites in place, recursively. It handles every field that can hold an expression,
// a type or a statement list.
func (r *rewriter) node(n ast.Node) {
	if n == nil {
		return
	}
	switch x := n.(type) {
	case *ast.GenDecl:
		for _, s := range x.Specs {
			switch sp := s.(type) {
			case *ast.ValueSpec:
				sp.Type = r.expr(sp.Type)
				if len(sp.Names) == 2 && len(sp.Values) == 1 {
					if u, ok := unparen(sp.Values[0]).(*ast.UnaryExpr); ok && u.Op == token.ARROW {
						sp.Values[0] = r.recv2(u)
						continue
					}
				}
				for i := range sp.Values {
					sp.Values[i] = r.expr(sp.Values[i])
				}
			case *ast.TypeSpec:
				sp.Type = r.expr(sp.Type)
			}
		}
	case *ast.FuncDecl:
		if x.Recv != nil {
			r.fieldList(x.Recv)
		}
		r.funcType(x.Type)
		if x.Body != nil {
			if r.opt.TouchVars {
				r.computeTaint(x.Body)
			}
			r.block(x.Body)
			r.tainted = nil
		}
	}
}

// hasRefs: values of this type can share memory with their source.
func hasRefs(t types.Type, depth int) bool {
	if t == nil || depth > 6 {
		return true
	}
	switch u := t.Underlying().(type) {
	case *types.Basic:
		return u.Kind() == types.UnsafePointer
	case *types.Slice, *types.Map, *types.Pointer, *types.Chan, *types.Signature, *types.Interface:
		return true
	case *types.Array:
		return hasRefs(u.Elem(), depth+1)
	case *types.Struct:
		for i := 0; i < u.NumFields(); i++ {
			if hasRefs(u.Field(i).Type(), depth+1) {
				return true
			}
		}
		return false
	}
	return true
}

// computeSharedReturning finds the functions of the package that return (something reachable from) a
// package-level variable, directly or through another such function: `w := acquireScratch()` then aliases
// shared state just as `w := scratch` does.
func (r *rewriter) computeSharedReturning(files []*ast.File) {
	r.sharedRet = map[types.Object]bool{}
	for iter := 0; iter < 4; iter++ {
		changed := false
		for _, f := range files {
			for _, d := range f.Decls {
				fd, ok := d.(*ast.FuncDecl)
				if !ok || fd.Body == nil || fd.Type.Results == nil {
					continue
				}
				fo := r.info.Defs[fd.Name]
				if fo == nil || r.sharedRet[fo] {
					continue
				}
				refs := false
				for _, res := range fd.Type.Results.List {
					if tv, ok := r.info.Types[res.Type]; ok && hasRefs(tv.Type, 0) {
						refs = true
					}
				}
				if !refs {
					continue
				}
				r.computeTaint(fd.Body)
				hit := false
				ast.Inspect(fd.Body, func(n ast.Node) bool {
					ret, ok := n.(*ast.ReturnStmt)
					if !ok {
						return true
					}
					for _, e := range ret.Results {
						ast.Inspect(e, func(m ast.Node) bool {
							switch x := m.(type) {
							case *ast.Ident:
								if o := r.info.Uses[x]; o != nil && (r.pkgVars[o] || r.isModuleVar(o) || r.tainted[o]) {
									hit = true
								}
							case *ast.CallExpr:
								if r.callsShared(x) {
									hit = true
								}
							}
							return !hit
						})
					}
					return true
				})
				r.tainted = nil
				if hit {
					r.sharedRet[fo] = true
					changed = true
				}
			}
		}
		if !changed {
			break
		}
	}
}

func (r *rewriter) callsShared(c *ast.CallExpr) bool {
	var id *ast.Ident
	switch f := unparen(c.Fun).(type) {
	case *ast.Ident:
		id = f
	case *ast.SelectorExpr:
		id = f.Sel
	}
	if id == nil {
		return false
	}
	return r.sharedRet[r.info.Uses[id]]
}

// computeTaint finds the local variables of a function body that may alias package-level state:
// x := pkgVar..., x = tainted..., for _, x := range pkgVar, iterated to a fixpoint.
func (r *rewriter) computeTaint(body *ast.BlockStmt) {
	r.tainted = map[types.Object]bool{}
	mentions := func(e ast.Expr) bool {
		found := false
		ast.Inspect(e, func(n ast.Node) bool {
			switch x := n.(type) {
			case *ast.Ident:
				if o := r.info.Uses[x]; o != nil && (r.pkgVars[o] || r.isModuleVar(o) || r.tainted[o]) {
					found = true
				}
			case *ast.CallExpr:
				if r.callsShared(x) {
					found = true
				}
			}
			return !found
		})
		return found
	}
	mark := func(lhs ast.Expr) bool {
		id, ok := unparen(lhs).(*ast.Ident)
		if !ok || id.Name == "_" {
			return false
		}
		o := r.info.Defs[id]
		if o == nil {
			o = r.info.Uses[id]
		}
		if o == nil || r.tainted[o] || r.pkgVars[o] {
			return false
		}
		if v, ok := o.(*types.Var); ok && hasRefs(v.Type(), 0) {
			r.tainted[o] = true
			return true
		}
		return false
	}
	// variables declared outside a `go func(){...}` literal but assigned inside it are shared between the
	// goroutine and its parent, whatever their type
	ast.Inspect(body, func(n ast.Node) bool {
		g, ok := n.(*ast.GoStmt)
		if !ok {
			return true
		}
		lit, ok := g.Call.Fun.(*ast.FuncLit)
		if !ok {
			return true
		}
		ast.Inspect(lit.Body, func(m ast.Node) bool {
			var lhs []ast.Expr
			switch x := m.(type) {
			case *ast.AssignStmt:
				if x.Tok != token.DEFINE {
					lhs = x.Lhs
				}
			case *ast.IncDecStmt:
				lhs = []ast.Expr{x.X}
			}
			for _, l := range lhs {
				if id, ok := unparen(l).(*ast.Ident); ok && id.Name != "_" {
					if o := r.info.Uses[id]; o != nil && (o.Pos() < lit.Pos() || o.Pos() > lit.End()) && !r.pkgVars[o] {
						if _, isVar := o.(*types.Var); isVar {
							r.tainted[o] = true
						}
					}
				}
			}
			return true
		})
		return true
	})
	for iter := 0; iter < 4; iter++ {
		changed := false
		ast.Inspect(body, func(n ast.Node) bool {
			switch x := n.(type) {
			case *ast.AssignStmt:
				any := false
				for _, e := range x.Rhs {
					if mentions(e) {
						any = true
					}
				}
				if any {
					for _, l := range x.Lhs {
						if mark(l) {
							changed = true
						}
					}
				}
			case *ast.ValueSpec:
				any := false
				for _, e := range x.Values {
					if mentions(e) {
						any = true
					}
				}
				if any {
					for _, nm := range x.Names {
						if mark(nm) {
							changed = true
						}
					}
				}
			case *ast.RangeStmt:
				if mentions(x.X) {
					if x.Key != nil && mark(x.Key) {
						changed = true
					}
					if x.Value != nil && mark(x.Value) {
						changed = true
					}
				}
			}
			return true
		})
		if !changed {
			break
		}
	}
}

func (r *rewriter) fieldList(fl *ast.FieldList) {
	if fl == nil {
		return
	}
	for _, f := range fl.List {
		f.Type = r.expr(f.Type)
	}
}

func (r *rewriter) funcType(ft *ast.FuncType) {
	if ft == nil {
		return
	}
	r.fieldList(ft.TypeParams)
	r.fieldList(ft.Params)
	r.fieldList(ft.Results)
}

func unparen(e ast.Expr) ast.Expr {
	for {
		p, ok := e.(*ast.ParenExpr)
		if !ok {
			return e
		}
		e = p.X
	}
}

func (r *rewriter) chanType(ct *ast.ChanType) ast.Expr {
	r.needVS = true
	r.count("chan type")
	elem := r.expr(ct.Value)
	return &ast.StarExpr{X: &ast.IndexExpr{X: sel("vsched", "Chan"), Index: elem}}
}

func (r *rewriter) recv2(u *ast.UnaryExpr) ast.Expr {
	r.count("recv")
	return &ast.CallExpr{Fun: &ast.SelectorExpr{X: r.expr(u.X), Sel: ast.NewIdent("Recv")}}
}

func (r *rewriter) exprs(es []ast.Expr) {
	for i := range es {
		es[i] = r.expr(es[i])
	}
}

func (r *rewriter) expr(e ast.Expr) ast.Expr {
	if e == nil {
		return nil
	}
	switch x := e.(type) {
	case *ast.ChanType:
		return r.chanType(x)
	case *ast.UnaryExpr:
		if x.Op == token.ARROW && r.foreignChan(x.X) {
			// a channel produced by a package outside the instrumented set (time.After, ctx.Done): a real receive
			r.count("recv on a foreign channel (left as is)")
			x.X = r.expr(x.X)
			return x
		}
		if x.Op == token.ARROW {
			r.count("recv")
			return &ast.CallExpr{Fun: &ast.SelectorExpr{X: r.expr(x.X), Sel: ast.NewIdent("Recv1")}}
		}
		x.X = r.expr(x.X)
	case *ast.CallExpr:
		if id, ok := x.Fun.(*ast.Ident); ok && r.isBuiltin(id) {
			switch id.Name {
			case "make":
				if len(x.Args) >= 1 {
					if ct, ok := unparen(x.Args[0]).(*ast.ChanType); ok {
						r.needVS = true
						r.count("make chan")
						var n ast.Expr = &ast.BasicLit{Kind: token.INT, Value: "0"}
						if len(x.Args) >= 2 {
							n = r.expr(x.Args[1])
						}
						return &ast.CallExpr{Fun: &ast.IndexExpr{X: sel("vsched", "NewChan"), Index: r.expr(ct.Value)}, Args: []ast.Expr{n}}
					}
					if r.isChanTypeExpr(x.Args[0]) {
						r.res.Unsupport = append(r.res.Unsupport, r.pos(x)+": make of a named channel type")
					}
				}
			case "close":
				if len(x.Args) == 1 {
					r.count("close")
					return &ast.CallExpr{Fun: &ast.SelectorExpr{X: r.expr(x.Args[0]), Sel: ast.NewIdent("Close")}}
				}
			case "len", "cap":
				if len(x.Args) == 1 && r.isChan(x.Args[0]) {
					m := "Len"
					if id.Name == "cap" {
						m = "Cap"
					}
					r.count("len/cap chan")
					return &ast.CallExpr{Fun: &ast.SelectorExpr{X: r.expr(x.Args[0]), Sel: ast.NewIdent(m)}}
				}
			}
		}
		if r.opt.FileOps {
			if s, ok := x.Fun.(*ast.SelectorExpr); ok {
				if id, ok := s.X.(*ast.Ident); ok {
					if pn, ok := r.info.Uses[id].(*types.PkgName); ok {
						key := pn.Imported().Path() + "." + s.Sel.Name
						if to, ok := fileOpMap[key]; ok {
							r.needVS = true
							r.count("fileop " + key)
							x.Fun = sel("vsched", to)
						}
					}
				}
			}
		}
		x.Fun = r.expr(x.Fun)
		r.exprs(x.Args)
	case *ast.ParenExpr:
		x.X = r.expr(x.X)
	case *ast.SelectorExpr:
		x.X = r.expr(x.X)
		if r.opt.FileOps {
			if id, ok := x.X.(*ast.Ident); ok {
				if pn, ok := r.info.Uses[id].(*types.PkgName); ok {
					key := pn.Imported().Path() + "." + x.Sel.Name
					if to, ok := fileTypeMap[key]; ok {
						r.needVS = true
						r.count("filetype " + key)
						return sel("vsched", to)
					}
				}
			}
		}
	case *ast.IndexExpr:
		x.X = r.expr(x.X)
		x.Index = r.expr(x.Index)
	case *ast.IndexListExpr:
		x.X = r.expr(x.X)
		r.exprs(x.Indices)
	case *ast.SliceExpr:
		x.X = r.expr(x.X)
		x.Low, x.High, x.Max = r.expr(x.Low), r.expr(x.High), r.expr(x.Max)
	case *ast.StarExpr:
		x.X = r.expr(x.X)
	case *ast.BinaryExpr:
		x.X, x.Y = r.expr(x.X), r.expr(x.Y)
	case *ast.KeyValueExpr:
		x.Key, x.Value = r.expr(x.Key), r.expr(x.Value)
	case *ast.CompositeLit:
		x.Type = r.expr(x.Type)
		r.exprs(x.Elts)
	case *ast.FuncLit:
		r.funcType(x.Type)
		r.block(x.Body)
	case *ast.TypeAssertExpr:
		x.X = r.expr(x.X)
		x.Type = r.expr(x.Type)
	case *ast.ArrayType:
		x.Len = r.expr(x.Len)
		x.Elt = r.expr(x.Elt)
	case *ast.MapType:
		x.Key, x.Value = r.expr(x.Key), r.expr(x.Value)
	case *ast.StructType:
		r.fieldList(x.Fields)
	case *ast.InterfaceType:
		r.fieldList(x.Methods)
	case *ast.FuncType:
		r.funcType(x)
	case *ast.Ellipsis:
		x.Elt = r.expr(x.Elt)
	}
	return e
}

var fileOpMap = map[string]string{
	"os.OpenFile":         "OpenFile",
	"os.Create":           "Create",
	"os.WriteFile":        "WriteFile",
	"io/ioutil.WriteFile": "WriteFile",
	"os.MkdirAll":         "MkdirAll",
	"os.Mkdir":            "Mkdir",
	"os.Exit":             "Exit",
}

var fileTypeMap = map[string]string{
	"os.File": "File",
}

func (r *rewriter) isBuiltin(id *ast.Ident) bool {
	if o, ok := r.info.Uses[id]; ok {
		_, b := o.(*types.Builtin)
		return b
	}
	// no type information: assume not shadowed
	return true
}

func (r *rewriter) isChanTypeExpr(e ast.Expr) bool {
	if tv, ok := r.info.Types[e]; ok && tv.IsType() {
		_, is := tv.Type.Underlying().(*types.Chan)
		return is
	}
	return false
}

func (r *rewriter) pos(n ast.Node) string {
	p := r.fset.Position(n.Pos())
	return fmt.Sprintf("%s:%d", filepath.Base(p.Filename), p.Line)
}

func (r *rewriter) block(b *ast.BlockStmt) {
	if b == nil {
		return
	}
	b.List = r.stmts(b.List)
}

func (r *rewriter) stmts(list []ast.Stmt) []ast.Stmt {
	var out []ast.Stmt
	for _, s := range list {
		ns := r.stmt(s)
		if r.opt.TouchVars {
			if names := r.mentionsPkgVar(s); len(names) > 0 {
				r.needVS = true
				r.count("touch")
				r.siteN++
				out = append(out, &ast.ExprStmt{X: &ast.CallExpr{Fun: sel("vsched", "TouchAt"),
					Args: []ast.Expr{&ast.BasicLit{Kind: token.INT, Value: strconv.Itoa(r.siteBase + r.siteN)}, &ast.BasicLit{Kind: token.STRING, Value: strconv.Quote(strings.Join(names, ","))}}}})
			}
		}
		out = append(out, ns)
	}
	return out
}

// mentionsPkgVar lists the package-level variables a statement mentions directly (not inside nested blocks,
// which get their own Touch).
func (r *rewriter) mentionsPkgVar(s ast.Stmt) []string {
	seen := map[string]bool{}
	var visit func(n ast.Node) bool
	visit = func(n ast.Node) bool {
		switch x := n.(type) {
		case *ast.BlockStmt, *ast.FuncLit:
			return false
		case *ast.Ident:
			o := r.info.Uses[x]
			if o == nil {
				o = r.info.Defs[x]
			}
			if o != nil && (r.pkgVars[o] || r.isModuleVar(o) || r.tainted[o]) {
				seen[x.Name] = true
			}
		}
		return true
	}
	switch x := s.(type) {
	case *ast.ForStmt:
		if x.Init != nil {
			ast.Inspect(x.Init, visit)
		}
		if x.Cond != nil {
			ast.Inspect(x.Cond, visit)
		}
	case *ast.RangeStmt:
		ast.Inspect(x.X, visit)
	case *ast.IfStmt:
		if x.Init != nil {
			ast.Inspect(x.Init, visit)
		}
		ast.Inspect(x.Cond, visit)
	case *ast.SwitchStmt:
		if x.Init != nil {
			ast.Inspect(x.Init, visit)
		}
		if x.Tag != nil {
			ast.Inspect(x.Tag, visit)
		}
	case *ast.BlockStmt, *ast.TypeSwitchStmt, *ast.SelectStmt, *ast.LabeledStmt, *ast.DeclStmt:
	default:
		ast.Inspect(s, visit)
	}
	var names []string
	for n := range seen {
		names = append(names, n)
	}
	sort.Strings(names)
	return names
}

// isModuleVar: a package-level variable of another package of the module under test.
func (r *rewriter) isModuleVar(o types.Object) bool {
	v, ok := o.(*types.Var)
	if !ok || v.Pkg() == nil || r.pkg == nil || v.IsField() {
		return false
	}
	if v.Parent() != v.Pkg().Scope() {
		return false
	}
	mine := r.pkg.Path()
	// the module prefix is the common root of the package under instrumentation
	root := "github.com/Trisia/randomness"
	_ = mine
	return strings.HasPrefix(v.Pkg().Path(), root)
}

func (r *rewriter) tmp(prefix string) *ast.Ident {
	r.tmpN++
	return ast.NewIdent(fmt.Sprintf("vs_%s%d", prefix, r.tmpN))
}

func (r *rewriter) stmt(s ast.Stmt) ast.Stmt {
	switch x := s.(type) {
	case nil:
		return nil
	case *ast.SendStmt:
		r.count("send")
		return &ast.ExprStmt{X: &ast.CallExpr{Fun: &ast.SelectorExpr{X: r.expr(x.Chan), Sel: ast.NewIdent("Send")}, Args: []ast.Expr{r.expr(x.Value)}}}
	case *ast.ExprStmt:
		x.X = r.expr(x.X)
	case *ast.AssignStmt:
		if len(x.Lhs) == 2 && len(x.Rhs) == 1 {
			if u, ok := unparen(x.Rhs[0]).(*ast.UnaryExpr); ok && u.Op == token.ARROW {
				r.exprs(x.Lhs)
				x.Rhs[0] = r.recv2(u)
				return x
			}
		}
		r.exprs(x.Lhs)
		r.exprs(x.Rhs)
	case *ast.GoStmt:
		return r.goStmt(x)
	case *ast.DeferStmt:
		if ne, ok := r.expr(x.Call).(*ast.CallExpr); ok {
			x.Call = ne
		}
	case *ast.ReturnStmt:
		r.exprs(x.Results)
	case *ast.BlockStmt:
		r.block(x)
	case *ast.IfStmt:
		x.Init = r.stmt(x.Init)
		x.Cond = r.expr(x.Cond)
		r.block(x.Body)
		x.Else = r.stmt(x.Else)
	case *ast.ForStmt:
		x.Init = r.stmt(x.Init)
		x.Cond = r.expr(x.Cond)
		x.Post = r.stmt(x.Post)
		r.block(x.Body)
	case *ast.RangeStmt:
		return r.rangeStmt(x)
	case *ast.SwitchStmt:
		x.Init = r.stmt(x.Init)
		x.Tag = r.expr(x.Tag)
		r.block(x.Body)
	case *ast.TypeSwitchStmt:
		x.Init = r.stmt(x.Init)
		x.Assign = r.stmt(x.Assign)
		r.block(x.Body)
	case *ast.CaseClause:
		r.exprs(x.List)
		x.Body = r.stmts(x.Body)
	case *ast.LabeledStmt:
		x.Stmt = r.stmt(x.Stmt)
	case *ast.DeclStmt:
		r.node(x.Decl)
	case *ast.IncDecStmt:
		x.X = r.expr(x.X)
	case *ast.SelectStmt:
		return r.selectStmt(x)
	case *ast.CommClause:
		// handled by selectStmt
	}
	return s
}

func (r *rewriter) rangeStmt(x *ast.RangeStmt) ast.Stmt {
	if !r.isChan(x.X) {
		if !r.typeKnown(x.X) {
			r.res.Unsupport = append(r.res.Unsupport, r.pos(x)+": range over an expression of unknown type")
		}
		x.Key = r.expr(x.Key)
		x.Value = r.expr(x.Value)
		x.X = r.expr(x.X)
		r.block(x.Body)
		return x
	}
	r.count("range chan")
	ch := r.expr(x.X)
	var pre []ast.Stmt
	if _, isIdent := ch.(*ast.Ident); !isIdent {
		t := r.tmp("ch")
		pre = append(pre, &ast.AssignStmt{Lhs: []ast.Expr{t}, Tok: token.DEFINE, Rhs: []ast.Expr{ch}})
		ch = t
	}
	recv := func() ast.Expr {
		return &ast.CallExpr{Fun: &ast.SelectorExpr{X: ch, Sel: ast.NewIdent("Recv")}}
	}
	ok := r.tmp("ok")
	var key ast.Expr = ast.NewIdent("_")
	tok := token.DEFINE
	if x.Key != nil {
		key = r.expr(x.Key)
		tok = x.Tok
	}
	r.block(x.Body)
	f := &ast.ForStmt{Body: x.Body}
	if tok == token.DEFINE {
		f.Init = &ast.AssignStmt{Lhs: []ast.Expr{key, ok}, Tok: token.DEFINE, Rhs: []ast.Expr{recv()}}
	} else {
		pre = append(pre, &ast.DeclStmt{Decl: &ast.GenDecl{Tok: token.VAR, Specs: []ast.Spec{&ast.ValueSpec{Names: []*ast.Ident{ok}, Type: ast.NewIdent("bool")}}}})
		f.Init = &ast.AssignStmt{Lhs: []ast.Expr{key, ok}, Tok: token.ASSIGN, Rhs: []ast.Expr{recv()}}
	}
	f.Cond = ok
	f.Post = &ast.AssignStmt{Lhs: []ast.Expr{key, ok}, Tok: token.ASSIGN, Rhs: []ast.Expr{recv()}}
	if len(pre) == 0 {
		return f
	}
	return &ast.BlockStmt{List: append(pre, f)}
}

func (r *rewriter) goStmt(g *ast.GoStmt) ast.Stmt {
	r.needVS = true
	r.count("go")
	call := g.Call
	var pre []ast.Stmt
	var lhs, rhs []ast.Expr
	fun := r.expr(call.Fun)
	// evaluate the function value at the go statement unless it is a plain package-level function
	hoistFun := true
	switch f := unparen(call.Fun).(type) {
	case *ast.Ident:
		if o := r.info.Uses[f]; o != nil {
			if fn, ok := o.(*types.Func); ok && fn.Pkg() != nil && fn.Parent() == fn.Pkg().Scope() {
				hoistFun = false
			}
			if _, ok := o.(*types.Builtin); ok {
				hoistFun = false
			}
		}
	case *ast.SelectorExpr:
		if id, ok := f.X.(*ast.Ident); ok {
			if _, ok := r.info.Uses[id].(*types.PkgName); ok {
				hoistFun = false
			}
		}
	}
	if hoistFun {
		t := r.tmp("f")
		lhs = append(lhs, t)
		rhs = append(rhs, fun)
		fun = t
	}
	args := make([]ast.Expr, len(call.Args))
	for i, a := range call.Args {
		na := r.expr(a)
		tv, known := r.info.Types[a]
		if known && (tv.Value != nil || tv.IsNil()) {
			args[i] = na // constants and nil stay inline (their type is fixed by the parameter)
			continue
		}
		if _, isLit := unparen(a).(*ast.BasicLit); isLit {
			args[i] = na
			continue
		}
		t := r.tmp("a")
		lhs = append(lhs, t)
		rhs = append(rhs, na)
		args[i] = t
	}
	if len(lhs) > 0 {
		pre = append(pre, &ast.AssignStmt{Lhs: lhs, Tok: token.DEFINE, Rhs: rhs})
	}
	inner := &ast.CallExpr{Fun: fun, Args: args, Ellipsis: call.Ellipsis}
	spawn := &ast.ExprStmt{X: &ast.CallExpr{Fun: sel("vsched", "Go"), Args: []ast.Expr{
		&ast.FuncLit{Type: &ast.FuncType{Params: &ast.FieldList{}}, Body: &ast.BlockStmt{List: []ast.Stmt{&ast.ExprStmt{X: inner}}}},
	}}}
	if len(pre) == 0 {
		return spawn
	}
	return &ast.BlockStmt{List: append(pre, spawn)}
}

// selectStmt: modelled through vsched.Select with one closure per case.
//
//	switch vs_i, vs_v, vs_ok := vsched.Select(hasDefault, cases...); vs_i { case 0: v := vs_v.(T); body ... }
func (r *rewriter) selectStmt(x *ast.SelectStmt) ast.Stmt {
	r.needVS = true
	r.count("select")
	idx, val, okv := r.tmp("i"), r.tmp("v"), r.tmp("ok")
	hasDefault := "false"
	var cases []ast.Expr
	var clauses []ast.Stmt
	n := 0
	for _, cl := range x.Body.List {
		cc := cl.(*ast.CommClause)
		body := r.stmts(cc.Body)
		if cc.Comm == nil {
			hasDefault = "true"
			clauses = append(clauses, &ast.CaseClause{List: []ast.Expr{&ast.BasicLit{Kind: token.INT, Value: "-1"}}, Body: body})
			continue
		}
		caseNo := &ast.BasicLit{Kind: token.INT, Value: strconv.Itoa(n)}
		n++
		switch c := cc.Comm.(type) {
		case *ast.SendStmt:
			cases = append(cases, &ast.CallExpr{Fun: &ast.SelectorExpr{X: r.expr(c.Chan), Sel: ast.NewIdent("SendCase")}, Args: []ast.Expr{r.expr(c.Value)}})
			clauses = append(clauses, &ast.CaseClause{List: []ast.Expr{caseNo}, Body: body})
		case *ast.ExprStmt:
			u, ok := unparen(c.X).(*ast.UnaryExpr)
			if !ok || u.Op != token.ARROW {
				r.res.Unsupport = append(r.res.Unsupport, r.pos(c)+": select case")
				continue
			}
			cases = append(cases, &ast.CallExpr{Fun: &ast.SelectorExpr{X: r.expr(u.X), Sel: ast.NewIdent("RecvCase")}})
			clauses = append(clauses, &ast.CaseClause{List: []ast.Expr{caseNo}, Body: body})
		case *ast.AssignStmt:
			u, ok := unparen(c.Rhs[0]).(*ast.UnaryExpr)
			if !ok || u.Op != token.ARROW || len(c.Rhs) != 1 {
				r.res.Unsupport = append(r.res.Unsupport, r.pos(c)+": select case")
				continue
			}
			chx := r.expr(u.X)
			cases = append(cases, &ast.CallExpr{Fun: &ast.SelectorExpr{X: chx, Sel: ast.NewIdent("RecvCase")}})
			// v := vsched.As(ch, vs_v)   (As uses the channel only for its element type)
			asg := &ast.AssignStmt{Lhs: []ast.Expr{c.Lhs[0]}, Tok: c.Tok, Rhs: []ast.Expr{
				&ast.CallExpr{Fun: sel("vsched", "As"), Args: []ast.Expr{chx, val}}}}
			pre := []ast.Stmt{asg}
			if len(c.Lhs) == 2 {
				asg.Lhs = append(asg.Lhs, c.Lhs[1])
				asg.Rhs = append(asg.Rhs, okv)
			}
			// silence "declared and not used"
			if c.Tok == token.DEFINE {
				for _, l := range c.Lhs {
					if id, ok := l.(*ast.Ident); ok && id.Name != "_" {
						pre = append(pre, &ast.AssignStmt{Lhs: []ast.Expr{ast.NewIdent("_")}, Tok: token.ASSIGN, Rhs: []ast.Expr{ast.NewIdent(id.Name)}})
					}
				}
			}
			clauses = append(clauses, &ast.CaseClause{List: []ast.Expr{caseNo}, Body: append(pre, body...)})
		}
	}
	callArgs := append([]ast.Expr{ast.NewIdent(hasDefault)}, cases...)
	init := &ast.AssignStmt{Lhs: []ast.Expr{idx, val, okv}, Tok: token.DEFINE, Rhs: []ast.Expr{&ast.CallExpr{Fun: sel("vsched", "Select"), Args: callArgs}}}
	use := &ast.AssignStmt{Lhs: []ast.Expr{ast.NewIdent("_"), ast.NewIdent("_")}, Tok: token.ASSIGN, Rhs: []ast.Expr{val, okv}}
	// a select whose clauses all end in terminating statements is itself terminating; the switch it becomes
	// needs a default clause to be one too (it is never taken: Select returns -1 or a case index)
	clauses = append(clauses, &ast.CaseClause{Body: []ast.Stmt{&ast.ExprStmt{X: &ast.CallExpr{Fun: ast.NewIdent("panic"), Args: []ast.Expr{&ast.BasicLit{Kind: token.STRING, Value: `"vsched: select returned an index without a clause"`}}}}}})
	sw := &ast.SwitchStmt{Tag: idx, Body: &ast.BlockStmt{List: clauses}}
	return &ast.BlockStmt{List: []ast.Stmt{init, use, sw}}
}
