// Package pipe exercises every construct the instrumenter rewrites.
package pipe

import (
	"sync"
	"sync/atomic"
	"time"
)

type acc struct {
	mu  sync.Mutex
	sum int
	rw  sync.RWMutex
	wg  sync.WaitGroup
}

var once sync.Once
var initialised int32

func setup() { atomic.AddInt32(&initialised, 1) }

// Run sums 1..n through a two-stage pipeline with a buffered channel, select and a quit channel.
func Run(n int) (int, int32) {
	once.Do(setup)
	a := &acc{}
	in := make(chan int, 2)
	out := make(chan int)
	quit := make(chan struct{})
	done := make(chan bool, 1)
	a.wg.Add(2)
	go func() {
		defer a.wg.Done()
		for v := range in {
			out <- v * 2
		}
		close(out)
	}()
	go func() {
		defer a.wg.Done()
		for {
			select {
			case v, ok := <-out:
				if !ok {
					done <- true
					return
				}
				a.mu.Lock()
				a.sum += v
				a.mu.Unlock()
			case <-quit:
				done <- false
				return
			}
		}
	}()
	for i := 1; i <= n; i++ {
		select {
		case in <- i:
		default:
			in <- i
		}
	}
	if len(in) > cap(in) {
		panic("impossible")
	}
	close(in)
	ok := <-done
	a.wg.Wait()
	a.rw.RLock()
	s := a.sum
	a.rw.RUnlock()
	if !ok {
		return -1, atomic.LoadInt32(&initialised)
	}
	return s, atomic.LoadInt32(&initialised)
}

// tryTake ends in a select whose clauses all return (a terminating statement).
func tryTake(c chan int) (int, bool) {
	select {
	case v := <-c:
		return v, true
	default:
		return 0, false
	}
}

var _ = tryTake

// WaitWithProgress mixes a modelled channel with a ticker and a timeout (the time package is replaced by vtime).
func WaitWithProgress(done chan struct{}) (ticks int, timedOut bool) {
	tk := time.NewTicker(50 * time.Millisecond)
	defer tk.Stop()
	deadline := time.After(10 * time.Minute)
	for {
		select {
		case <-done:
			return ticks, false
		case <-tk.C:
			ticks++
		case <-deadline:
			return ticks, true
		}
	}
}
