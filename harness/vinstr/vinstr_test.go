package vinstr

import (
	"os"
	"os/exec"
	"path/filepath"
	"strings"
	"testing"
)

// The instrumented pipe package is built into a small program that explores all schedules with <= 2
// preemptions and checks the result on every one of them.
func TestInstrumentedPipeline(t *testing.T) {
	tmp := t.TempDir()
	wd, _ := os.Getwd()
	src := filepath.Join(wd, "testdata", "pipe")
	res, err := Instrument(Options{Dir: src, OutDir: filepath.Join(tmp, "out")})
	if err != nil {
		t.Fatal(err)
	}
	if len(res.Unsupport) > 0 || len(res.TypeErrs) > 0 {
		t.Fatalf("unsupported %v type errors %v", res.Unsupport, res.TypeErrs)
	}
	t.Log(res.Counts)
	// build a program: copy the instrumented file into a package of the harness module
	prog := filepath.Join(wd, "..", "cmd", "zz_pipe_test_prog")
	_ = os.RemoveAll(prog)
	defer os.RemoveAll(prog)
	if err := os.MkdirAll(filepath.Join(prog, "pipe"), 0o755); err != nil {
		t.Fatal(err)
	}
	for _, p := range res.Overlay {
		b, _ := os.ReadFile(p)
		if err := os.WriteFile(filepath.Join(prog, "pipe", "pipe.go"), b, 0o644); err != nil {
			t.Fatal(err)
		}
	}
	mainSrc := `package main

import (
	"fmt"
	"os"

	"verif/cmd/zz_pipe_test_prog/pipe"
	"verif/explore"
	"verif/vsched"
)

func main() {
	st := explore.Explore(explore.Config{Name: "pipe", Bound: 2, NewExec: func() (func(), func(*vsched.Exec) explore.Verdict) {
		var s int
		var ini int32
		return func() { s, ini = pipe.Run(3) }, func(x *vsched.Exec) explore.Verdict {
			v := explore.Verdict{Signature: fmt.Sprint(s, ini, x.Outcome)}
			if s != 12 || ini != 1 || x.Outcome != vsched.OutDone {
				v.Violation = fmt.Sprint("sum ", s, " init ", ini, " outcome ", x.Outcome, x.Blocked, x.PanicVal)
			}
			return v
		}
	}})
	fmt.Println("execs", st.Execs, "states", len(st.States), "err", st.ToolError, "sigs", st.Signatures)
	if st.Found != nil || st.ToolError != "" {
		fmt.Println("FOUND", st.Found)
		os.Exit(1)
	}
	// timers: the 50 ms ticker may fire before the worker is done (a deviation), the 10-minute deadline never does
	st2 := explore.Explore(explore.Config{Name: "timers", Bound: 2, CostAll: true, NewExec: func() (func(), func(*vsched.Exec) explore.Verdict) {
		ticks, timedOut := -1, false
		return func() {
			done := vsched.NewChan[struct{}](0)
			vsched.Go(func() {
				vsched.Yield("work 1")
				vsched.Yield("work 2")
				done.Close()
			})
			ticks, timedOut = pipe.WaitWithProgress(done)
		}, func(x *vsched.Exec) explore.Verdict {
			v := explore.Verdict{Signature: fmt.Sprint(ticks, timedOut, x.Outcome)}
			if timedOut || ticks < 0 || x.Outcome != vsched.OutDone {
				v.Violation = fmt.Sprint("ticks ", ticks, " timedOut ", timedOut, " outcome ", x.Outcome, x.Blocked, x.PanicVal)
			}
			return v
		}
	}})
	fmt.Println("timers: execs", st2.Execs, "err", st2.ToolError, "sigs", st2.Signatures)
	if st2.Found != nil || st2.ToolError != "" || len(st2.Signatures) < 2 {
		fmt.Println("FOUND", st2.Found, "(or the ticker never fired in any schedule)")
		os.Exit(1)
	}
}
`
	if err := os.WriteFile(filepath.Join(prog, "main.go"), []byte(mainSrc), 0o644); err != nil {
		t.Fatal(err)
	}
	cmd := exec.Command("go", "run", "./cmd/zz_pipe_test_prog")
	cmd.Dir = filepath.Join(wd, "..")
	out, err := cmd.CombinedOutput()
	t.Log(string(out))
	if err != nil || !strings.Contains(string(out), "execs") {
		t.Fatalf("exploration of the instrumented pipeline failed: %v", err)
	}
}
