// Package seam drives the detection workflows through the two seams the public API offers:
// the exported registry (stub runners) and the io.Reader source (marker stream, chunking and
// fault-injecting readers).
package seam

import (
	"bytes"
	"encoding/binary"
	"fmt"
	"io"
	"sort"
	"strings"
	"sync"

	"github.com/Trisia/randomness"

	"verif/vsched"
)

// ---------- marker stream ----------

func markerOffsets(n int) []int { return []int{0, 2, n / 2, n/2 + 2, n - 4, n - 2} }

// SampleBytes builds sample k (0-based) of n bytes for run id: a per-sample filler, six 2-byte
// markers k+1, and the run id at offsets 4 and n-8.
func SampleBytes(id uint32, k, n int) []byte {
	b := bytes.Repeat([]byte{byte(k%251 + 1)}, n)
	for _, o := range markerOffsets(n) {
		binary.BigEndian.PutUint16(b[o:], uint16(k+1))
	}
	binary.BigEndian.PutUint32(b[4:], id)
	binary.BigEndian.PutUint32(b[n-8:], id)
	return b
}

// Decode recovers run id and sample index from the bytes handed to a runner; ok=false means torn
// (markers disagree / zero / filler wrong): stale or zero buffer contents, or a misaligned sample.
func Decode(data []byte, full bool) (id uint32, k int, ok bool, why string) {
	n := len(data)
	if n < 16 {
		return 0, -1, false, fmt.Sprintf("sample of %d bytes", n)
	}
	var m uint16
	for i, o := range markerOffsets(n) {
		v := binary.BigEndian.Uint16(data[o:])
		if i == 0 {
			m = v
		} else if v != m {
			return 0, -1, false, fmt.Sprintf("markers disagree: %d at offset 0, %d at offset %d", m, v, o)
		}
	}
	id = binary.BigEndian.Uint32(data[4:])
	if id2 := binary.BigEndian.Uint32(data[n-8:]); id2 != id {
		return id, -1, false, "run ids disagree"
	}
	if m == 0 {
		return id, -1, false, "zero marker (unwritten buffer)"
	}
	k = int(m) - 1
	if full {
		exp := expected(k, n)
		if !bytes.Equal(data[8:n-8], exp[8:n-8]) || !bytes.Equal(data[:4], exp[:4]) || !bytes.Equal(data[n-4:], exp[n-4:]) {
			return id, k, false, fmt.Sprintf("sample %d: filler bytes differ from the stream's", k)
		}
	}
	return id, k, true, ""
}

var (
	expMu    sync.Mutex
	expCache = map[[2]int][]byte{}
)

func expected(k, n int) []byte {
	expMu.Lock()
	defer expMu.Unlock()
	key := [2]int{k, n}
	if b, ok := expCache[key]; ok {
		return b
	}
	b := SampleBytes(0, k, n)
	if len(expCache) < 4096 {
		expCache[key] = b
	}
	return b
}

// ---------- scenario matrices and stub runners ----------

// Scenario prescribes the result of every registry item on every sample.
type Scenario struct {
	Name string
	Pass [][]bool    // [sample][15]
	Q    [][]float64 // [sample][15]
}

// NewScenario: all samples pass every item; Q values spread evenly over the ten bins.
func NewScenario(name string, samples int) *Scenario {
	sc := &Scenario{Name: name}
	for k := 0; k < samples; k++ {
		p := make([]bool, 15)
		q := make([]float64, 15)
		for i := range p {
			p[i] = true
			q[i] = (float64((k+i)%10) + 0.5) / 10
		}
		sc.Pass = append(sc.Pass, p)
		sc.Q = append(sc.Q, q)
	}
	return sc
}

func (sc *Scenario) Clone(name string) *Scenario {
	c := &Scenario{Name: name}
	for k := range sc.Pass {
		c.Pass = append(c.Pass, append([]bool{}, sc.Pass[k]...))
		c.Q = append(c.Q, append([]float64{}, sc.Q[k]...))
	}
	return c
}

// Call is one runner invocation as observed by a stub.
type Call struct {
	Item   int
	Sample int // -1 = torn
	Len    int
	Why    string
}

// Run is one workflow call under stubs: its scenario, its stream identity and what the stubs saw.
type Run struct {
	ID    uint32
	Sc    *Scenario
	mu    sync.Mutex
	Calls []Call
	Torn  []string
}

var (
	runs    sync.Map // uint32 -> *Run
	nextRun uint32
	runMu   sync.Mutex
	strays  []string // calls whose bytes belong to no live run
)

// NewRun registers a scenario and returns the run whose id is woven into its stream.
func NewRun(sc *Scenario) *Run {
	InstallStubs()
	runMu.Lock()
	nextRun++
	r := &Run{ID: nextRun, Sc: sc}
	runMu.Unlock()
	runs.Store(r.ID, r)
	return r
}

// Close unregisters the run.
func (r *Run) Close() { runs.Delete(r.ID) }

// Stream is count consecutive samples of n bytes of this run.
func (r *Run) Stream(count, n int) []byte {
	out := make([]byte, 0, count*n)
	for k := 0; k < count; k++ {
		out = append(out, SampleBytes(r.ID, k, n)...)
	}
	return out
}

// PatchStream rewrites the run id inside a stream built by another run (count samples of n bytes).
func (r *Run) PatchStream(buf []byte, count, n int) {
	for k := 0; k < count; k++ {
		b := buf[k*n : (k+1)*n]
		binary.BigEndian.PutUint32(b[4:], r.ID)
		binary.BigEndian.PutUint32(b[n-8:], r.ID)
	}
}

func (r *Run) add(c Call) {
	r.mu.Lock()
	r.Calls = append(r.Calls, c)
	if c.Sample < 0 && len(r.Torn) < 5 {
		r.Torn = append(r.Torn, fmt.Sprintf("item %d: %s", c.Item, c.Why))
	}
	r.mu.Unlock()
}

// Judged returns, per item, the sorted list of sample indices it was given.
func (r *Run) Judged() map[int][]int {
	r.mu.Lock()
	defer r.mu.Unlock()
	m := map[int][]int{}
	for _, c := range r.Calls {
		m[c.Item] = append(m[c.Item], c.Sample)
	}
	for _, v := range m {
		sort.Ints(v)
	}
	return m
}

// CallSeq returns the calls in the order they happened.
func (r *Run) CallSeq() []Call {
	r.mu.Lock()
	defer r.mu.Unlock()
	return append([]Call{}, r.Calls...)
}

// Digest is a cheap order-insensitive digest of the calls so far (state fingerprint).
func (r *Run) Digest() uint64 {
	r.mu.Lock()
	defer r.mu.Unlock()
	var h uint64
	for _, c := range r.Calls {
		h += uint64(c.Item+1)*1000003 ^ uint64(c.Sample+7)*7919
	}
	return h
}

var (
	origRunners []randomness.TestFunc
	origNames   []string
	installed   bool
	// Torn calls that could not be attributed to a run are attributed to the only live run, if
	// there is exactly one (the controlled executions run one at a time).
)

// RegistryNames returns the original registry names.
func RegistryNames() []string {
	saveOrig()
	return origNames
}

// OrigRunner returns the real runner i.
func OrigRunner(i int) randomness.TestFunc {
	saveOrig()
	return origRunners[i]
}

func saveOrig() {
	runMu.Lock()
	defer runMu.Unlock()
	if origRunners != nil {
		return
	}
	for _, it := range randomness.TestMethodArr {
		origRunners = append(origRunners, it.Runner)
		origNames = append(origNames, it.Name)
	}
}

func soleRun() *Run {
	var only *Run
	n := 0
	runs.Range(func(_, v interface{}) bool {
		only = v.(*Run)
		n++
		return n < 2
	})
	if n == 1 {
		return only
	}
	return nil
}

// InstallStubs replaces every registry runner by a stub that answers from the scenario of the
// run its input bytes belong to.
func InstallStubs() {
	saveOrig()
	runMu.Lock()
	defer runMu.Unlock()
	if installed {
		return
	}
	installed = true
	for i := range randomness.TestMethodArr {
		item := i
		name := origNames[i]
		twoValued := strings.Contains(name, "重叠子序列")
		randomness.TestMethodArr[i].Runner = func(data []byte) *randomness.TestResult {
			if item == 0 {
				vsched.Yield("round")
			}
			id, k, ok, why := Decode(data, item == 0)
			var r *Run
			if v, found := runs.Load(id); found {
				r = v.(*Run)
			} else {
				r = soleRun()
				ok = false
				if why == "" {
					why = "bytes of no live run"
				}
			}
			fail := &randomness.TestResult{Name: name, P: 0, Q: 0, Pass: false}
			if r == nil {
				runMu.Lock()
				if len(strays) < 20 {
					strays = append(strays, fmt.Sprintf("item %d: %s", item, why))
				}
				runMu.Unlock()
				return fail
			}
			if !ok {
				r.add(Call{Item: item, Sample: -1, Len: len(data), Why: why})
				return fail
			}
			r.add(Call{Item: item, Sample: k, Len: len(data)})
			if k >= len(r.Sc.Pass) {
				// a sample beyond the scenario (bytes past the s samples): fails everything
				return fail
			}
			p := 0.0
			if r.Sc.Pass[k][item] {
				p = 0.5
			}
			res := &randomness.TestResult{Name: name, P: p, Q: r.Sc.Q[k][item], Pass: r.Sc.Pass[k][item]}
			if twoValued {
				// the overlapping-subsequence item really has a second statistic: the stub fills it with a decoy
				// (P2 below P, one constant Q2). The decision rule counts Pass and bins the s Q-values (Q1);
				// a workflow that lets P2/Q2 leak into the histogram sees all samples in one bin.
				res.P2, res.Q2 = p/4, 0.95
			}
			return res
		}
	}
}

// Strays returns torn calls that belonged to no run.
func Strays() []string {
	runMu.Lock()
	defer runMu.Unlock()
	return append([]string{}, strays...)
}

// Restore puts the real runners back.
func Restore() {
	saveOrig()
	runMu.Lock()
	defer runMu.Unlock()
	for i := range randomness.TestMethodArr {
		randomness.TestMethodArr[i].Runner = origRunners[i]
	}
	installed = false
}

// NamedItem maps an error message to the registry item it names (-1 if none).
// The longest matching registry name wins.
func NamedItem(err error) int {
	if err == nil {
		return -1
	}
	saveOrig()
	msg := err.Error()
	best, bestLen := -1, 0
	for i, n := range origNames {
		if strings.Contains(msg, n) && len(n) > bestLen {
			best, bestLen = i, len(n)
		}
	}
	return best
}

// ---------- sources ----------

// Answer overrides what the source does at one Read call.
type Answer struct {
	N   int   // bytes to deliver (clamped to what is requested and available); -1 = default
	Err error // error returned together with the N bytes
}

// Source is an io.Reader over a byte slice, safe for concurrent use (each Read atomically
// takes the next consecutive bytes), with scheduling points at entry and exit.
type Source struct {
	Data []byte
	// Policy, if set, decides every call: (call index, requested, remaining) -> answer, use
	Policy func(call, req, remaining int) (Answer, bool)
	mu     sync.Mutex
	pos    int
	calls  int
	Sizes  []int // bytes returned per call (capped log)
	sticky error
	Sticky bool // after the first injected error every later call fails with it
	// EOFWithData: the Read that delivers the last byte of Data returns io.EOF together with it, as
	// the io.Reader contract allows (iotest.DataErrReader, some device and network readers).
	EOFWithData bool
}


func (s *Source) Read(p []byte) (int, error) {
	vsched.Yield("read-enter")
	s.mu.Lock()
	call := s.calls
	s.calls++
	n, err := s.read(call, p)
	if len(s.Sizes) < 4096 {
		s.Sizes = append(s.Sizes, n)
	}
	s.mu.Unlock()
	vsched.Observe("read", uint64(n))
	vsched.Yield("read-exit")
	return n, err
}

func (s *Source) read(call int, p []byte) (int, error) {
	if s.sticky != nil {
		return 0, s.sticky
	}
	remaining := len(s.Data) - s.pos
	n := len(p)
	if n > remaining {
		n = remaining
	}
	var err error
	if s.Policy != nil {
		if a, use := s.Policy(call, len(p), remaining); use {
			if a.N >= 0 && a.N < n {
				n = a.N
			}
			err = a.Err
			if err != nil && s.Sticky {
				s.sticky = err
			}
		}
	}
	if n == 0 && err == nil && len(p) > 0 && remaining == 0 {
		err = io.EOF
	}
	copy(p, s.Data[s.pos:s.pos+n])
	s.pos += n
	if s.EOFWithData && err == nil && n > 0 && s.pos == len(s.Data) {
		err = io.EOF
	}
	return n, err
}

// Pos is the number of bytes consumed; Calls the number of Read calls.
func (s *Source) Pos() int {
	s.mu.Lock()
	defer s.mu.Unlock()
	return s.pos
}

func (s *Source) Calls() int {
	s.mu.Lock()
	defer s.mu.Unlock()
	return s.calls
}
