#!/bin/bash
# tools/benign.sh <patch> <check>... : apply a behaviour-preserving patch, run checks, any VIOLATION is a FALSE ALARM candidate
P="$1"; shift
cd /repo || exit 2
git checkout -- . 2>/dev/null
git apply --check "$P" 2>/dev/null || { echo "PATCH DOES NOT APPLY"; exit 2; }
git apply "$P"
export GOFLAGS=-mod=mod GOPROXY=off GOSUMDB=off GOTOOLCHAIN=local
go build ./... 2>&1 | head -3
for id in "$@"; do
  out=$(/verif/check "$id" --tier quick 2>&1); code=$?
  echo "$id exit=$code $(echo "$out" | grep -E "level=" | sed 's/.*violations/violations/')"
  echo "$out" | grep -E "violation detail|TOOL|cannot|tool error|note:" | cut -c1-330 | head -4
done
git -C /repo apply -R "$P" 2>/dev/null; git -C /repo checkout -- .
