#!/bin/bash
# tools/seedtest.sh <seed-dir> <check-id>[:t] ... : apply <seed-dir>/patch.diff to /repo, run the checks, revert.
D="$1"; shift
cd /repo || exit 2
git checkout -- . 2>/dev/null
if ! git apply --check "$D/patch.diff" 2>/dev/null; then echo "PATCH DOES NOT APPLY: $D"; exit 2; fi
git apply "$D/patch.diff"
export GOFLAGS=-mod=mod GOPROXY=off GOSUMDB=off GOTOOLCHAIN=local
if ! go build ./... 2>/tmp/seedbuild.log; then echo "PATCHED TREE DOES NOT BUILD"; cat /tmp/seedbuild.log | head; git checkout -- .; exit 2; fi
for id in "$@"; do
  tier=quick
  case "$id" in *:t) tier=thorough; id="${id%:t}";; esac
  out=$(/verif/check "$id" --tier $tier 2>&1)
  code=$?
  echo "== $id $tier exit=$code"
  echo "$out" | grep -E "VIOLATION|violation detail|level=|cannot|tool error" | cut -c1-${SEED_COLS:-260} | head -${SEED_LINES:-4}
done
git -C /repo apply -R "$D/patch.diff" 2>/dev/null
git -C /repo checkout -- .
git -C /repo status --short | grep -v data/data.bin
