#!/bin/bash
# tools/seed_regress.sh [tier] : apply every seeded change to /repo in turn, run the quick check of its own property, report caught / MISSED.
tier=${1:-quick}
cd /verif
for d in seeded/*/; do
  id=$(basename $d); prop=${id%%-*}
  patch=/verif/$d/patch.diff
  [ -f $d/rebased.diff ] && patch=/verif/$d/rebased.diff
  git -C /repo checkout -- . 2>/dev/null
  if ! git -C /repo apply --check $patch 2>/dev/null; then echo "$id SKIP (patch does not apply to the current tree)"; continue; fi
  git -C /repo apply $patch
  out=$(./check $prop --tier $tier 2>&1); code=$?
  git -C /repo apply -R $patch 2>/dev/null; git -C /repo checkout -- .
  if [ $code -eq 1 ] && echo "$out" | grep -q "^VIOLATION property=$prop"; then echo "$id caught"; else echo "$id MISSED (exit $code)"; fi
done
