#!/usr/bin/env python3
"""Writes /verif/MANIFEST.json from the table below (kept in one place so that it stays valid)."""
import json, sys

CHECKS = {
 # id: (engine, category, technique, text, note, design_ref)
 "C07": ("E3-registry-seam", "exploration",
   "bounded-exhaustive enumeration of result matrices through the stub-registry seam against an independent decision model",
   "Every pass count for every item, every partition of s into <=10 bin counts (all for s=20, near-critical and a stride for s=50 in quick; all in thorough), ordered item pairs on both criteria, trailing bytes, unjudged items and the per-sample call log are fed to the real FactoryDetect/PowerOnDetect/PeriodDetect through stub registry runners; verdict, nil-ness of the error, the named item, bytes consumed and samples judged are compared with an independent model (exact integer threshold, 320-bit Q(9/2,.)). Complete over the stated families, not over all 2^(s*n*8) streams.",
   "trusted: stub seam (randomness.TestMethodArr is the only path from workflows to tests), math/big, refmodel closed form of Q for half-integer shapes",
   "DESIGN.md section 3 C07"),
}

NOT_YET = {
}

def main():
    ids = ["C%02d" % i for i in range(1, 21)]
    checks = []
    na = []
    for i in ids:
        if i in CHECKS:
            eng, cat, tech, text, note, ref = CHECKS[i]
            checks.append({
                "property_id": i,
                "quick_cmd": "./check %s --tier quick" % i,
                "thorough_cmd": "./check %s --tier thorough" % i,
                "evidence_file": "/verif/evidence/%s.json" % i,
                "replay_cmd_template": "./check %s --replay {path}" % i,
                "engine": eng,
                "level_claimed": {"category": cat, "text": text, "design_ref": ref},
                "level_note": note,
                "technique": tech,
            })
        else:
            na.append({"property_id": i, "reason": NOT_YET.get(i, "check not built yet in this revision of /verif (planned, see DESIGN.md section 3); not claimed until it runs")})
    m = {
        "version": 1,
        "setup_cmd": "./setup.sh",
        "hooks": {
            "guard": "verif_instr (Go build tag set only by /verif's own builds; no hook is committed in /repo: instrumentation is generated from /repo's working tree at check time and substituted with `go build -overlay`)",
            "enable": "cd /verif/harness && go build -tags verif_instr -overlay <generated overlay.json> ./cmd/runner (done by the checks themselves)",
            "baseline_off_cmd": "cd /repo && GOFLAGS=-mod=mod GOPROXY=off GOSUMDB=off go test -vet=off -count=1 -timeout 25m ./...",
            "source_commits": [],
            "add_only": True,
        },
        "engines": [
            {"name": "E1-vsched", "path": "/verif/harness/vsched, /verif/harness/vinstr, /verif/harness/explore", "serves_properties": ["C08", "C09", "C10", "C13", "C18", "C20"],
             "kind_free_text": "own cooperative scheduler + AST instrumenter (applied to /repo's working tree at check time) + stateless deviation-bounded DFS over all interleavings of the real goroutines"},
            {"name": "E2-enum-refmodel", "path": "/verif/harness/refmodel, /verif/harness/checks", "serves_properties": ["C01", "C02", "C03", "C04", "C05", "C06", "C11", "C12", "C15", "C16", "C17", "C19"],
             "kind_free_text": "bounded-exhaustive input enumeration (all bit strings of small lengths, whole finite domains, complete structured families) against an independent reference model"},
            {"name": "E3-registry-seam", "path": "/verif/harness/seam, /verif/harness/model", "serves_properties": ["C07", "C08", "C09", "C10", "C14"],
             "kind_free_text": "explicit enumeration of result matrices, fault points and read-size histories through the exported registry and io.Reader seams"},
        ],
        "checks": checks,
        "not_applicable": na,
        "notes": "All checks rebuild the harness against /repo's working tree on every invocation (module replace => /repo). See DESIGN.md.",
    }
    json.dump(m, open("/verif/MANIFEST.json", "w"), indent=1, ensure_ascii=False)
    print("wrote MANIFEST.json with", len(checks), "checks,", len(na), "not_applicable")

main()
