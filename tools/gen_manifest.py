#!/usr/bin/env python3
"""Writes /verif/MANIFEST.json from the table below (kept in one place so that it stays valid)."""
import json, sys

CHECKS = {
 # id: (engine, category, technique, text, note, design_ref)
 "C07": ("E3-registry-seam", "exploration",
   "bounded-exhaustive enumeration of result matrices through the stub-registry seam against an independent decision model",
   "Every pass count for every item, every partition of s into <=10 bin counts (all for s=20, near-critical and a stride for s=50 in quick; all in thorough), ordered item pairs on both criteria, trailing bytes, unjudged items and the per-sample call log are fed to the real FactoryDetect/PowerOnDetect/PeriodDetect through stub registry runners; verdict, nil-ness of the error, the named item, bytes consumed and samples judged are compared with an independent model (exact integer threshold, 320-bit Q(9/2,.)). Complete over the stated families, not over all 2^(s*n*8) streams.",
   "trusted: stub seam (randomness.TestMethodArr is the only path from workflows to tests), math/big, refmodel closed form of Q for half-integer shapes",
   "DESIGN.md section 3 C07"),
 "C08": ("E1-vsched", "model_checking",
   "stateless deviation-bounded exploration of all interleavings of the instrumented implementation under an own controlled scheduler, differential against the sequential twin; free-running -race pass",
   "The real FactoryDetectFast/PowerOnDetectFast/PeriodDetectFast (channels, WaitGroup, mutexes, atomics, go statements rewritten at check time from /repo's working tree) run under a cooperative scheduler; every schedule with at most d non-default scheduling decisions under three default policies is executed for W=1..3 workers on 14 verdict-sensitive result matrices and compared with the sequential function on the same bytes (verdict, named item, torn samples, unjudged samples, deadlock, leak, panic). Data races are decided by a separate free-running -race pass at GOMAXPROCS 1/2/16. Complete up to the stated deviation bound and worker count, not beyond.",
   "sequential consistency at instrumented operations; W<=3; deviation bound 1 (quick) / 2 (thorough, not Factory); stub runners",
   "DESIGN.md section 3 C08"),
 "C09": ("E1-vsched + E3", "fault_enumeration",
   "exhaustive enumeration of fault points (every byte offset / every Read index x kinds) on the real workflows; parallel variants under the controlled scheduler where a hang is a model deadlock",
   "Sequential workflows and SingleDetect: the source fails at every byte offset (Period, Single) or 4 offsets per sample (125000-byte workflows) x 4 kinds x sticky/transient x read sizes; parallel workflows: fault at every Read index x 7 kinds x sticky/transient x W=1..3 at deviation bound 0 under two policies and bound 1/2 at five fault indices, every execution must end (no deadlock, leak, livelock) with (false, non-nil).",
   "faults enter through io.Reader only; hang = no enabled thread in the controlled execution",
   "DESIGN.md section 3 C09"),
 "C10": ("E3 + E1-vsched", "fault_enumeration",
   "exhaustive enumeration of read-size histories (<=2 deviations at every Read index, all compositions of 16/20 bytes) against the full-read run; parallel variants under the controlled scheduler crossing short reads with scheduling deviations",
   "Every history with at most two short reads (1, half, all-but-one) at every Read index plus uniform chunkings on three sensitive marker-stream scenarios for the three sequential workflows; all 2^15 (2^19) compositions for SingleDetect(16/20); parallel workflows: the same short reads at deviation bound 0 under three policies and one short read x one scheduling deviation for W=2. Stale/zero bytes are observed directly by the stubs (markers, filler).",
   "read alphabet {all,1,half,all-but-one}; <=2 deviations; W<=2; deviation bound 1 (2 for Period in thorough)",
   "DESIGN.md section 3 C10"),
}

NOT_YET = {
}

def main():
    ids = ["C%02d" % i for i in range(1, 21)]
    checks = []
    na = []
    for i in ids:
        if i in CHECKS:
            eng, cat, tech, text, note, ref = CHECKS[i]
            checks.append({
                "property_id": i,
                "quick_cmd": "./check %s --tier quick" % i,
                "thorough_cmd": "./check %s --tier thorough" % i,
                "evidence_file": "/verif/evidence/%s.json" % i,
                "replay_cmd_template": "./check %s --replay {path}" % i,
                "engine": eng,
                "level_claimed": {"category": cat, "text": text, "design_ref": ref},
                "level_note": note,
                "technique": tech,
            })
        else:
            na.append({"property_id": i, "reason": NOT_YET.get(i, "check not built yet in this revision of /verif (planned, see DESIGN.md section 3); not claimed until it runs")})
    m = {
        "version": 1,
        "setup_cmd": "./setup.sh",
        "hooks": {
            "guard": "verif_instr (Go build tag set only by /verif's own builds; no hook is committed in /repo: instrumentation is generated from /repo's working tree at check time and substituted with `go build -overlay`)",
            "enable": "cd /verif/harness && go build -tags verif_instr -overlay <generated overlay.json> ./cmd/runner (done by the checks themselves)",
            "baseline_off_cmd": "cd /repo && GOFLAGS=-mod=mod GOPROXY=off GOSUMDB=off go test -vet=off -count=1 -timeout 25m ./...",
            "source_commits": [],
            "add_only": True,
        },
        "engines": [
            {"name": "E1-vsched", "path": "/verif/harness/vsched, /verif/harness/vinstr, /verif/harness/explore", "serves_properties": ["C08", "C09", "C10", "C13", "C18", "C20"],
             "kind_free_text": "own cooperative scheduler + AST instrumenter (applied to /repo's working tree at check time) + stateless deviation-bounded DFS over all interleavings of the real goroutines"},
            {"name": "E2-enum-refmodel", "path": "/verif/harness/refmodel, /verif/harness/checks", "serves_properties": ["C01", "C02", "C03", "C04", "C05", "C06", "C11", "C12", "C15", "C16", "C17", "C19"],
             "kind_free_text": "bounded-exhaustive input enumeration (all bit strings of small lengths, whole finite domains, complete structured families) against an independent reference model"},
            {"name": "E3-registry-seam", "path": "/verif/harness/seam, /verif/harness/model", "serves_properties": ["C07", "C08", "C09", "C10", "C14"],
             "kind_free_text": "explicit enumeration of result matrices, fault points and read-size histories through the exported registry and io.Reader seams"},
        ],
        "checks": checks,
        "not_applicable": na,
        "notes": "All checks rebuild the harness against /repo's working tree on every invocation (module replace => /repo). See DESIGN.md.",
    }
    json.dump(m, open("/verif/MANIFEST.json", "w"), indent=1, ensure_ascii=False)
    print("wrote MANIFEST.json with", len(checks), "checks,", len(na), "not_applicable")

main()
