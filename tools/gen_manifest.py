#!/usr/bin/env python3
"""Writes /verif/MANIFEST.json from the table below (kept in one place so that it stays valid)."""
import json, sys

CHECKS = {
 # id: (engine, category, technique, text, note, design_ref)
 "C07": ("E3-registry-seam", "exploration",
   "bounded-exhaustive enumeration of result matrices through the stub-registry seam against an independent decision model",
   "Every pass count for every item, every partition of s into <=10 bin counts (all for s=20, near-critical and a stride for s=50 in quick; all in thorough), ordered item pairs on both criteria, trailing bytes, unjudged items and the per-sample call log are fed to the real FactoryDetect/PowerOnDetect/PeriodDetect through stub registry runners; verdict, nil-ness of the error, the named item, bytes consumed and samples judged are compared with an independent model (exact integer threshold, 192-bit Q(9/2,.)). Complete over the stated families, not over all 2^(s*n*8) streams.",
   "trusted: stub seam (randomness.TestMethodArr is the only path from workflows to tests), math/big, refmodel closed form of Q for half-integer shapes",
   "DESIGN.md section 3 C07"),
 "C08": ("E1-vsched", "model_checking",
   "stateless deviation-bounded exploration of all interleavings of the instrumented implementation under an own controlled scheduler, differential against the sequential twin; free-running -race pass",
   "The real FactoryDetectFast/PowerOnDetectFast/PeriodDetectFast (channels, WaitGroup, mutexes, atomics, go statements rewritten at check time from /repo's working tree) run under a cooperative scheduler; every schedule with at most d non-default scheduling decisions under four default policies (ascending id, descending id, least recently run, delayed-last = delay-bounded scheduling) is executed for W=1..3 workers on 15 verdict-sensitive result matrices, with full-read and short-reading sources and with another parallel workflow called first in the same execution, and compared with the sequential function on the same bytes (verdict, named item, torn samples, unjudged samples, deadlock, leak, panic). Data races are decided by a separate free-running -race pass at GOMAXPROCS 1/2/16. Complete up to the stated deviation bound and worker count, not beyond.",
   "sequential consistency at instrumented operations; W<=3; deviation bound 1 (quick) / 2 (thorough, not Factory); stub runners",
   "DESIGN.md section 3 C08"),
 "C09": ("E1-vsched + E3", "fault_enumeration",
   "exhaustive enumeration of fault points (every byte offset / every Read index x kinds) on the real workflows; parallel variants under the controlled scheduler where a hang is a model deadlock",
   "Sequential workflows and SingleDetect: the source fails at every byte offset (Period, Single) or 4 offsets per sample (125000-byte workflows) x 4 kinds x sticky/transient x read sizes; parallel workflows: fault at every Read index x 7 kinds x sticky/transient x W=1..3 at deviation bound 0 under three policies and bound 1/2 at five fault indices, 8 fault kinds incl. errors of two different concrete types, every execution must end (no deadlock, leak, livelock) with (false, non-nil).",
   "faults enter through io.Reader only; hang = no enabled thread in the controlled execution",
   "DESIGN.md section 3 C09"),
 "C10": ("E3 + E1-vsched", "fault_enumeration",
   "exhaustive enumeration of read-size histories (<=2 deviations at every Read index, all compositions of 16/20 bytes) against the full-read run; parallel variants under the controlled scheduler crossing short reads with scheduling deviations",
   "Every history with at most two short reads (1, half, all-but-one) at every Read index plus uniform chunkings on three sensitive marker-stream scenarios for the three sequential workflows; all 2^15 (2^19) compositions for SingleDetect(16/20); parallel workflows: the same short reads at deviation bound 0 under four policies and one short read x one scheduling deviation for W=2 (ascending-id and delayed-last policies); uniform 1- and 2-byte reads also on the 125000-byte samples. Stale/zero bytes are observed directly by the stubs (markers, filler).",
   "read alphabet {all,1,half,all-but-one}; <=2 deviations; W<=2; deviation bound 1 (2 for Period in thorough)",
   "DESIGN.md section 3 C10"), "C01": ("E2-enum-refmodel", "exploration",
   'bounded-exhaustive input enumeration (all bit strings of small lengths / whole finite domains / complete structured families) against an independent reference model',
   'Every bit string of n=8..18 (thorough ..23) x 18 parameterisations, every 1-,2-(3-)byte string and byte patterns to 2500 bytes x byte entry points, every base pattern <=8 bits repeated to 12 boundary-rich lengths with <=1(2) flips, automatic block length for every n<=20000 and around 10^6 (10^8); compared with refmodel to 1e-8. Complete on these families; 10^3..10^8-bit contents are grammar words only.',
   'trusted: refmodel (closed-form Q for integer/half-integer shapes), math.Erfc; overlapping P2(m=2) compared with a stated conditioning slack',
   "DESIGN.md section 3 C01"),
 "C02": ("E2-enum-refmodel", "exploration",
   'bounded-exhaustive input enumeration (all bit strings of small lengths / whole finite domains / complete structured families) against an independent reference model',
   'Runs total on every bit string n=1..18(23); runs distribution on every run-length word (prefix<=2(3), suffix<=2 letters over {1..k+2,k+9}, both first symbols) at both sides of every cut-off k=2..9(15); longest run: every n in 128..8000, every ordered pair of 8-bit block contents, a block of every longest-run value in first/middle/last block and boundary-straddling runs in the 128- and 10000-bit regimes, both symbols. Class probabilities are recomputed exactly (big-integer recurrence) and rounded to the printed precision.',
   'trusted: refmodel; tolerance 1e-8',
   "DESIGN.md section 3 C02"),
 "C03": ("E2-enum-refmodel", "exploration",
   'bounded-exhaustive input enumeration (all bit strings of small lengths / whole finite domains / complete structured families) against an independent reference model',
   'Every bit string n=1..20(24) x {binary derivative k=3,7,15; autocorrelation d=1,2,8,16,32; cumulative sums fwd/bwd}; autocorrelation d=32 at n=33..40 over all readable-bit assignments; cumulative sums over every excursion z=1..n at n in {100,101,128,1000(,20000)}; periodic patterns with flips.',
   'trusted: refmodel; cumulative-sums limits over the reals as the standard writes them',
   "DESIGN.md section 3 C03"),
 "C04": ("E2-enum-refmodel", "exploration",
   'bounded-exhaustive input enumeration (all bit strings of small lengths / whole finite domains / complete structured families) against an independent reference model; explicit-state breadth-first search over elementary matrix operations with the rank class as invariant',
   'Rank: every kxk GF(2) matrix k<=4(5) in six embeddings, BFS depth 2(3) over row/column operations from diag(I_r,0) for every r, all 27 class sequences; linear complexity: every m-bit block m=4..16(20), block pairs m<=8, every complexity L at m=500/1000 via unit impulses, LFSR outputs, m=5000; Maurer: every short test segment over six 7-bit letters after three initial segments. Any panic is a violation.',
   'trusted: reference rank on 32-bit row words, Berlekamp-Massey validated against brute-force LFSR search for every block m<=12',
   "DESIGN.md section 3 C04"),
 "C05": ("E2-enum-refmodel", "exploration",
   'bounded-exhaustive input enumeration (all bit strings of small lengths / whole finite domains / complete structured families) against an independent reference model',
   "Every bit string n=2..16(20) against the naive DFT; 16(18) lengths around powers of two x constants, periodic patterns, square tones of period 2..32, fillers with <=1 flip. The implementation's (P,Q) must match the formula for some N1 in the interval obtained by moving the threshold by a relative 1e-9.",
   'trusted: naive DFT / recursive reference FFT validated against it',
   "DESIGN.md section 3 C05"),
 "C06": ("E2-enum-refmodel", "exploration",
   'exhaustive evaluation of a stated finite (a,x) lattice against 192-bit closed forms',
   'All listed shapes (quick ~300, thorough all 10000 integers and half-integers in [0.5,5000]) x ~180 arguments each bracketing x=1, x=a, both tails and the underflow cut-off: accuracy 1e-12+1e-14a, range [0,1], exactly 1 for x<=0, monotone along the lattice. Nothing is claimed between lattice points.',
   'trusted: math/big, math.Erfc',
   "DESIGN.md section 3 C06"),
 "C11": ("E2-enum-refmodel", "exploration",
   'bounded-exhaustive input enumeration (all bit strings of small lengths / whole finite domains / complete structured families) against an independent reference model',
   'SingleDetect on every requested length 0..4096 (+12500,125000) x 5 contents (error below 16 bytes, bytes consumed); every histogram of 2-bit patterns for 16,17,39 (thorough 16..39) bytes; skew families through P=0.01 at both sides of 320 and 10240 bits for m=4 and m=8.',
   'trusted: refmodel.Poker; block order irrelevance is C17',
   "DESIGN.md section 3 C11"),
 "C12": ("E2-enum-refmodel", "exploration",
   'whole-domain enumeration (s=1..10^6) against an exact integer predicate; exhaustive short lists and bin-count partitions against an exact-rational chi-square and 192-bit Q(9/2,.)',
   'Threshold(s) for every s<=10^6; ThresholdQ on every ordered list of length 1..3 over a 39-value edge-seeking alphabet, every partition of 20 and 50 into <=10 bins x arrangements x orders, two families of length 1000; order independence bit-for-bit.',
   'trusted: math/big',
   "DESIGN.md section 3 C12"),
 "C15": ("E2-enum-refmodel", "exploration",
   'bounded-exhaustive input enumeration (all bit strings of small lengths / whole finite domains / complete structured families) against an independent reference model (differential between entry points, bit-identical)',
   "Byte vs bit entry points on every 1-,2-(3-)byte string, byte patterns repeated to 16/128/1121/2500 bytes, fillers to 125000 bytes, every documented parameter; runners vs entry points with the standard's defaults incl. Pass; registry order by name and by reference semantics; Round15/Round12; ReadGroup on every file length 0..64, 125000, 125001.",
   'bit-identical = identical float64 bit patterns',
   "DESIGN.md section 3 C15"),
 "C16": ("E2-enum-refmodel", "exploration",
   'bounded-exhaustive input enumeration (all bit strings of small lengths / whole finite domains / complete structured families) against an independent reference model',
   'The extreme family (constants, period-p patterns, single transitions incl. a=-1,0,1 mod 500, lone ones/zeros, balanced, fillers, heavy bias) at every n in 100..136, 1000, 1024, 8967..8974, 20000 and a subset at 10^6 (10^7), plus 756 biased fillers with P-values on both sides of 0.01, x every admissible entry point and the 15 runners: finite, in range, P/Q relation, Pass consistency.',
   'family is a stated finite set',
   "DESIGN.md section 3 C16"),
 "C17": ("E2-enum-refmodel", "exploration",
   'bounded-exhaustive input enumeration (all bit strings of small lengths / whole finite domains / complete structured families) against an independent reference model (differential: f(x) vs f(Tx), no expected values)',
   'Every bit string n=16,17 (thorough ..20) x complement, reversal, every rotation, every permutation of <=4 blocks / transpositions, every tail content, for each call whose definition implies the symmetry; longer inputs at six lengths.',
   '1e-9 where a sum is reordered, bit-identical otherwise; overlapping compared with its conditioning slack',
   "DESIGN.md section 3 C17"),
 "C19": ("E2-enum-refmodel", "exploration",
   'basis-complete enumeration (every unit impulse and pure tone for each N) plus all small vectors against the naive DFT',
   'Every unit impulse and pure tone for N=2..2^12(2^14), all +-1 vectors N<=16, all vectors over {0,1,-1,i} N<=8, fillers to 2^16(2^20), inverse(forward)=identity, constructor on every N<=8192 and around every power of two to 2^20(2^22, 2^27), refusals, wrong-length slices.',
   'linearity extends the basis result to all inputs up to floating-point accumulation',
   "DESIGN.md section 3 C19"),
 "C13": ("E1-vsched + E2", "model_checking",
   "stateless deviation-bounded exploration of the instrumented rddetector main() (walker, workers, result writer) with the report judged at process exit; header-as-specification column check of every scale's worker; end-to-end binary runs",
   "The real main() of tools/rddetector (instrumented from the working tree; channels, WaitGroup, go statements, file writes as scheduling points) runs with os.Args set on F=1..3 sample files and n=1..3(64) workers; every schedule within the deviation bound must end with a report = header + exactly one complete row per .bin/.dat file with the right values. Every column of every scale (2E4, 1E6, 1E8) is compared with the library call its header label names on 8 (4) files; each scale's worker also runs under the controlled scheduler on a small file with scheduling points at every statement touching a variable shared with a goroutine; stale longer reports and directories named *.bin/*.dat are part of the family; race pass; the built binary is run end to end on 1/5/7/33 files.",
   "deviation bound 1 (thorough: 4 for one file, 3 for two files and two workers, 2 for the other F<=2,n<=2); the 10^8 scale is exercised through its worker on 25000-byte files",
   "DESIGN.md section 3 C13"),
 "C20": ("E1-vsched + e2e", "model_checking",
   "stateless deviation-bounded exploration of the instrumented rdgen main() over a real scratch file system with a deterministic random source; end-to-end binary runs followed by rddetector",
   "The real main() of tools/rdgen runs with os.Args set in a scratch directory for s=1..4 (and 5,6,7,9 under four default policies) files, W=1..3 writers and five output forms (default, relative, nested, absolute, existing with larger stale samples); file operations and the random source's Read are scheduling points; at main's return the tree must hold exactly random0..random(s-1).bin of n/8 bytes, pairwise different, inside the requested directory and nothing elsewhere. End-to-end: built rdgen for s in {1,5,7,300} then rddetector must accept the directory as s samples of n bits.",
   "deviation bound 1 (thorough: 2 for s<=3, n=64, 4 for s<=2); crypto/rand.Reader replaced by a deterministic never-repeating stream",
   "DESIGN.md section 3 C20"),
 "C14": ("E3-registry-seam", "exploration",
   "exhaustive enumeration of a stated family of periodic byte streams through the six real workflows (real registry runners memoised per distinct sample)",
   "Constant-byte streams (16 in quick, all 256 in thorough), periods 2..64 (quick: 2,3,64) x {counter, bit-balanced, fixed filler}, a lone 0x01 in zeros at every position for p in {2,63,64} through FactoryDetect/PowerOnDetect/PeriodDetect and their Fast variants with the real tests; all-zero and all-one sources through SingleDetect at every length 16..4096, 12500, 125000: verdict false with a non-nil error, no panic.",
   "period contents beyond the listed kinds are not enumerated; the real-runner part runs the parallel variants free-running, the concurrent-pair part runs under the controlled scheduler with stub runners",
   "DESIGN.md section 3 C14"),
 "C18": ("E1-vsched + explicit-state search", "model_checking",
   "explicit-state breadth-first search over operation sequences with the deep dump of all package-level variables as state; stateless preemption-bounded exploration of concurrent call pairs with scheduling points at every access to package-level state; cold-process -race pass",
   "State = dump of every package-level variable of randomness/fft/detect (discovered from the AST at check time) + input hashes; every operation (15 runners, Round15, Round12, every parameterised entry point) x 4 inputs must repeat its initial-state result bit for bit and leave inputs unchanged; if some operation moves the state, history independence is searched to depth 3. Concurrent: all ordered pairs of the 17 registry-level operations (thorough: all entry points) on shared and distinct buffers with <=2 preemptions at synchronisation operations and at statements touching package-level variables, their local aliases (also through functions returning them) or variables assigned inside go-closures, with per-site budgets; 3-thread configurations; the section-6 helpers (ThresholdQ, Igamc) are part of the alphabet. Data races: one fresh -race process per operation (cold package state) running it concurrently on four input sizes and in every ordered pair, plus a 64-goroutine mix.",
   "scheduling points only at package-level state accesses (first 12/24 per thread); function-local state cannot be shared between calls",
   "DESIGN.md section 3 C18"),
}

# sentences appended to the level text (families added after the seeded rounds)
ADD = {
 "C01": " Added: every sequence is handed over as a window of a longer stream and the stream is compared after each call (also C02-C04); byte counts of 65541..131075 with a non-zero tail; every check runs after a prelude that writes to and appends to every slice the exported conversion helpers returned.",
 "C02": " Added: fillers of 2^18 and 10^6 bits with one run planted at j*2^k (k=10..17) of length 2^k-1..2^(k+1), all four run-based calls.",
 "C04": " Added: near-identical blocks (one bit flipped in the last 8 positions / first / middle) among 100 filler blocks for m=67,100,500,1000; Maurer: bursts of 16..127 never-seen letters after a constant / alternating initial segment.",
 "C05": " Added: every 1- and 2-byte string and fillers of 3..2500 bytes through the byte entry point and the registry runner; family S3: bin N/4 on the integer next to the threshold for the 15 most sensitive lengths in (2^14, 2^18], compared in exact integer arithmetic.",
 "C06": " Added: the lower tail 10^-k, 3*10^-k down to the subnormals and the floats around 2^-1074..2^-26 cut-off candidates.",
 "C07": " Added: exact-length streams whose final Read reports io.EOF together with its bytes; three of four scenarios preceded by an earlier call that its source aborts. The stub of the two-valued item (overlapping subsequences) carries a decoy second statistic (P2 below P, constant Q2): a workflow that lets P2/Q2 reach the histogram changes its verdict (also C08-C10).",
 "C08": " Added: two consecutive calls on one source (results and bytes consumed equal the sequential twin's), exact-length streams ending with (n>0, io.EOF), another parallel workflow called first, streams that fail (typed error then EOF, EOF, custom, short-then-EOF).",
 "C09": " Added: W+2 consecutive failing calls in one execution; package-level channels of the code under test (limiters) are modelled, so a slot leaked on an error path is a deadlock of the model; a fault kind whose error has a slice type.",
 "C10": " Added: exact-length streams whose final Read reports io.EOF together with its bytes (sequential and parallel).",
 "C11": " Added: sources whose final Read reports io.EOF together with the last requested bytes; requests up to 2^20 (2^24) bytes with stuck and biased contents; for every length 40..4096 the histograms whose P-value is closest to 0.01 on both sides.",
 "C12": " Added: lists of 5000..10^6 values (uniform, skewed, everything in one or two intervals).",
 "C13": " Added: timers of the tool (progress tickers) are modelled by the scheduler; directories named *.bin/*.dat, a longer stale report at the report path, two sample files sharing a base name in two sub-directories (one row each). Every sample tree carries hidden non-sample files (.DS_Store, .gitkeep, .hidden) and a hidden directory (.git/) next to the samples.",
 "C14": " Added: under the controlled scheduler (stub runners) a rejected stream is judged while a second goroutine judges a healthy stream with the same detection (seq|fast x seq|fast, <=1 deviation, four policies): each call must return what it returns alone; healthy requests before stuck ones; single-shot lengths to 2^22 (2^24); four of the streams ending early (0..sN-1 bytes) through all six workflows. Stuck sources of 200000000 and 2^28-1 bytes (thorough: five more between 2^27 and 3*10^8), where 64-bit products of pattern counts wrap.",
 "C15": " Added: ReadGroup on file sizes around 2^12..2^18 and over a named pipe delivering the contents in 1..3 pieces; byte lengths at regime boundaries; inputs of 2^20+3 .. 12500003 bytes; stuck inputs of 2^24+5 bytes; every entry-point pair under load (eight goroutines per CPU, mixed and one pair at a time).",
 "C18": " Added: every registry runner repeated alone and paired with itself on 10^6-bit samples (<=1 preemption); inputs are windows of larger buffers (the spare capacity is hashed too); free-running -race pass: every entry point three at once on one shared buffer, sixteen goroutines running one operation on six inputs and eight on 10^6-bit samples, results compared with the solitary ones.",
 "C20": " Added: output and working directories whose names contain printf verbs, blanks, non-ASCII characters, a trailing separator or dot segments; names ending in .bin/.dat; larger stale samples; leftovers of an interrupted run (missing, empty, short sample inside a finished prefix). Size sweep: rdgen -s 2 -n 8b for every b in 1..64 and around every power of two up to 4 MiB (thorough: also k*4096, k*65536, k*65536+1, k*1000 for k=2..40).",
}

NOT_YET = {
}

def main():
    ids = ["C%02d" % i for i in range(1, 21)]
    checks = []
    na = []
    for i in ids:
        if i in CHECKS:
            eng, cat, tech, text, note, ref = CHECKS[i]
            text += ADD.get(i, "")
            checks.append({
                "property_id": i,
                "quick_cmd": "./check %s --tier quick" % i,
                "thorough_cmd": "./check %s --tier thorough" % i,
                "evidence_file": "/verif/evidence/%s.json" % i,
                "replay_cmd_template": "./check %s --replay {path}" % i,
                "engine": eng,
                "level_claimed": {"category": cat, "text": text, "design_ref": ref},
                "level_note": note,
                "technique": tech,
            })
        else:
            na.append({"property_id": i, "reason": NOT_YET.get(i, "check not built yet in this revision of /verif (planned, see DESIGN.md section 3); not claimed until it runs")})
    m = {
        "version": 1,
        "setup_cmd": "./setup.sh",
        "hooks": {
            "guard": "verif_instr (Go build tag set only by /verif's own builds; no hook is committed in /repo: instrumentation is generated from /repo's working tree at check time and substituted with `go build -overlay`)",
            "enable": "cd /verif/harness && go build -tags verif_instr -overlay <generated overlay.json> ./cmd/runner (done by the checks themselves)",
            "baseline_off_cmd": "cd /repo && GOFLAGS=-mod=mod GOPROXY=off GOSUMDB=off go test -vet=off -count=1 -timeout 25m ./...",
            "source_commits": [],
            "add_only": True,
        },
        "engines": [
            {"name": "E1-vsched", "path": "/verif/harness/vsched, /verif/harness/vinstr, /verif/harness/explore", "serves_properties": ["C08", "C09", "C10", "C12", "C13", "C14", "C18", "C20"],
             "kind_free_text": "own cooperative scheduler + AST instrumenter (applied to /repo's working tree at check time) + stateless deviation-bounded DFS over all interleavings of the real goroutines"},
            {"name": "E2-enum-refmodel", "path": "/verif/harness/refmodel, /verif/harness/checks", "serves_properties": ["C01", "C02", "C03", "C04", "C05", "C06", "C11", "C12", "C15", "C16", "C17", "C19"],
             "kind_free_text": "bounded-exhaustive input enumeration (all bit strings of small lengths, whole finite domains, complete structured families) against an independent reference model"},
            {"name": "E3-registry-seam", "path": "/verif/harness/seam, /verif/harness/model", "serves_properties": ["C07", "C08", "C09", "C10", "C14"],
             "kind_free_text": "explicit enumeration of result matrices, fault points and read-size histories through the exported registry and io.Reader seams"},
        ],
        "checks": checks,
        "not_applicable": na,
        "notes": "All checks rebuild the harness against /repo's working tree on every invocation (module replace => /repo). See DESIGN.md.",
    }
    json.dump(m, open("/verif/MANIFEST.json", "w"), indent=1, ensure_ascii=False)
    print("wrote MANIFEST.json with", len(checks), "checks,", len(na), "not_applicable")

main()
