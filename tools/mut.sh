#!/bin/bash
# tools/mut.sh <patch-file> <check-id>... : apply a patch to /repo, run the checks (quick), revert.
P="$1"; shift
cd /repo || exit 2
git apply "$P" || { echo "patch does not apply"; exit 2; }
for id in "$@"; do
  tier=quick
  case "$id" in *:t) tier=thorough; id="${id%:t}";; esac
  /verif/check "$id" --tier $tier 2>&1 | grep -E "VIOLATION|KNOWN|violation detail|level=|cannot|error" | head -${MUT_LINES:-6}
done
git -C /repo checkout -- . 
git -C /repo status --short | grep -v data/data.bin
