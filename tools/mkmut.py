#!/usr/bin/env python3
"""mkmut.py <out.diff> <file> <old> <new> [<file> <old> <new> ...]: make a patch against /repo by textual replacement (first occurrence), leave /repo clean."""
import subprocess, sys
out = sys.argv[1]
args = sys.argv[2:]
subprocess.check_call(["git", "-C", "/repo", "checkout", "--", "."])
for i in range(0, len(args), 3):
    f, old, new = args[i:i+3]
    p = "/repo/" + f
    s = open(p).read()
    if old not in s:
        print("NOT FOUND in", f, ":", old[:60]); sys.exit(1)
    s = s.replace(old, new, 1)
    open(p, "w").write(s)
d = subprocess.check_output(["git", "-C", "/repo", "diff", "--", ".", ":!data/data.bin"])
open(out, "wb").write(d)
subprocess.check_call(["git", "-C", "/repo", "checkout", "--", "."])
print("wrote", out, len(d), "bytes")
