#!/bin/bash
# Run once after a fresh restore, offline: warms the Go build cache for the harness (plain and -race).
export GOFLAGS=-mod=mod GOPROXY=off GOSUMDB=off GOTOOLCHAIN=local
cd "$(dirname "$0")/harness" || exit 1
mkdir -p ../.work ../evidence ../replays
go build -o ../.work/runner.warm ./cmd/runner || exit 1
go build -race -o ../.work/runner.race.warm ./cmd/runner || exit 1
rm -f ../.work/runner.warm ../.work/runner.race.warm
echo "setup ok"
